"""spec -> real adsg_core objects.  The only module that calls the construction API."""
import math
from . import spec as S


class Built:
    """Result of building a spec: the DSG plus name<->object maps."""

    def __init__(self):
        self.dsg = None
        self.spec = None
        self.node = {}       # name -> node object
        self.sel = {}        # sel key -> SelectionChoiceNode
        self.conn = {}       # conn id -> ConnectionChoiceNode
        self._name = {}      # node object -> name
        self.error = None    # exception raised while building (set_start_nodes / constrain_choices)

    def name(self, node):
        n = self._name.get(node)
        if n is not None:
            return n
        return structural_name(node)

    def names(self, nodes):
        return sorted(self.name(n) for n in nodes)


def structural_name(node):
    """Name of a node that is not in the builder's map (e.g. unpickled in another process)."""
    import adsg_core.graph.adsg_nodes as an
    if isinstance(node, an.SelectionChoiceNode):
        return 'SEL<%s>' % node.decision_id
    if isinstance(node, an.ConnectionChoiceNode):
        return 'K:%s' % node.decision_id
    return getattr(node, 'name', None) or str(node)


def make_node(n):
    import adsg_core as ac
    kind = n['kind']
    if kind == 'named':
        return ac.NamedNode(n.get('label', n['id']))   # 'label': display name, may repeat (replicated sub-architectures)
    if kind == 'conn':
        deg = n.get('deg', {'list': [1]})
        kw = {}
        if 'list' in deg:
            kw['deg_list'] = list(deg['list'])
        else:
            kw['deg_min'] = deg['min']
            kw['deg_max'] = deg.get('max', math.inf) if deg.get('max') is not None else math.inf
        return ac.ConnectorNode(n['id'], repeated_allowed=bool(n.get('rep', False)), **kw)
    if kind == 'grp':
        return ac.ConnectorDegreeGroupingNode(n['id'])
    if kind == 'dv':
        nm_ = n.get('label', n['id'])    # same-named design-variable nodes (one "size" per option subtree)
        if 'options' in n:
            return ac.DesignVariableNode(nm_, options=list(n['options']))
        return ac.DesignVariableNode(nm_, bounds=tuple(n['bounds']))
    if kind == 'metric':
        t = n.get('type')
        type_ = getattr(ac.MetricType, t) if t else None
        # (several metric nodes may share their display name; they are then told apart by idx: "<name>_<idx>")
        return ac.MetricNode(n.get('label', n['id']), direction=n.get('dir'), ref=n.get('ref'), idx=n.get('idx'),
                             type_=type_)
    raise ValueError(kind)


def build(spec, initialize=True, constrain=True, catch=True) -> Built:
    """Build a fresh BasicDSG (fresh node objects) from a spec.

    If `catch`, exceptions of set_start_nodes/constrain_choices are stored in Built.error
    (dsg is then None) instead of propagating."""
    import adsg_core as ac
    from adsg_core.graph.adsg_basic import BasicDSG
    from adsg_core.graph.choice_constraints import ChoiceConstraintType
    spec = S.normalize(spec)
    b = Built()
    b.spec = spec
    dsg = BasicDSG()
    for n in spec['nodes']:
        obj = make_node(n)
        b.node[n['id']] = obj
        b._name[obj] = n['id']
    used = set()
    late = bool(spec.get('edges_after_choices'))   # same graph, other insertion order (in-edge order of option nodes)
    if not late:
        for u, v in spec['edges']:
            dsg.add_edge(b.node[u], b.node[v])
            used.update((u, v))
    for c in spec['sel']:
        cn = dsg.add_selection_choice(c['id'], b.node[c['origin']], [b.node[o] for o in c['options']])
        b.sel[c['key']] = cn
        b._name[cn] = 'S:' + c['key']
        used.add(c['origin'])
        used.update(c['options'])
    if late:
        for u, v in spec['edges']:
            dsg.add_edge(b.node[u], b.node[v])
            used.update((u, v))
    for k in spec['conn']:
        def side(entries):
            out = []
            for e in entries:
                if isinstance(e, dict):
                    out.append((b.node[e['grp']], [b.node[m] for m in e['members']]))
                    used.add(e['grp'])
                    used.update(e['members'])
                else:
                    out.append(b.node[e])
                    used.add(e)
            return out
        excl = [(b.node[x], b.node[y]) for x, y in k.get('exclude', [])] or None
        cn = dsg.add_connection_choice(k['id'], side(k['src']), side(k['tgt']), exclude=excl)
        b.conn[k['id']] = cn
        b._name[cn] = 'K:' + k['id']
    for pair in spec['incompat']:
        dsg.add_incompatibility_constraint([b.node[x] for x in pair])
        used.update(pair)
    for n in spec['nodes']:
        if n['id'] not in used:
            dsg.add_node(b.node[n['id']])
    try:
        dsg = dsg.set_start_nodes({b.node[s] for s in spec['start']}, initialize_choices=initialize)
        if constrain:
            for con in spec['constraints']:
                nodes = [b.sel[x] if x in b.sel else b.node[x] for x in con['choices']]
                dsg = dsg.constrain_choices(getattr(ChoiceConstraintType, con['type']), nodes)
    except Exception as e:  # noqa
        if not catch:
            raise
        b.error = e
        dsg = None
    b.dsg = dsg
    return b


def make_settings(cs):
    """connector-settings spec -> MatrixGenSettings.

    cs = {"src": [{"deg": {...}, "rep": bool}], "tgt": [...], "excluded": [[i, j]],
          "patterns": [{"src_exists": [...], "tgt_exists": [...], "src_override": {"0": [..]}, "tgt_override": {}}] | None,
          "max_conn_parallel": int | None}
    """
    from adsg_core.optimization.assign_enc.matrix import Node, MatrixGenSettings, NodeExistence, NodeExistencePatterns

    def node(n):
        deg = n['deg']
        if 'list' in deg:
            return Node(list(deg['list']), repeated_allowed=bool(n.get('rep', False)))
        mx = deg.get('max')
        return Node(min_conn=deg['min'], max_conn=math.inf if mx is None else mx,
                    repeated_allowed=bool(n.get('rep', False)))

    src = [node(n) for n in cs['src']]
    tgt = [node(n) for n in cs['tgt']]
    excluded = [(src[i], tgt[j]) for i, j in cs.get('excluded') or []]
    existence = None
    if cs.get('patterns') is not None:
        pats = []
        for p in cs['patterns']:
            pats.append(make_existence(p))
        existence = NodeExistencePatterns(pats)
    return MatrixGenSettings(src, tgt, excluded=excluded or None, existence=existence,
                             max_conn_parallel=cs.get('max_conn_parallel'))


def make_existence(p):
    from adsg_core.optimization.assign_enc.matrix import NodeExistence
    so = {int(k): list(v) for k, v in (p.get('src_override') or {}).items()} or None
    to = {int(k): list(v) for k, v in (p.get('tgt_override') or {}).items()} or None
    return NodeExistence(src_exists=p.get('src_exists'), tgt_exists=p.get('tgt_exists'),
                         src_n_conn_override=so, tgt_n_conn_override=to)


def build_sup(sup_spec, src_built, initialize=True):
    """supplementary graph from a sup spec:
    {"nodes": [names], "edges": [[u, v]], "start": [names],
     "sel": [{"key", "origin", "options": [names],
              "mapping": {"type": "option", "src": <src sel key>, "map": [[src option name | None, sup option name]]}
                       | {"type": "existence", "map": [[src node name | None, sup option name]]}}]}
    Returns (Built for the sup graph, list of exceptions per stage)."""
    from adsg_core.graph.sup import SupDSG, SupNode, SupSelChoiceOptionMapping, SupExistenceMapping
    b = Built()
    b.spec = sup_spec
    dsg = SupDSG()
    refs = sup_spec.get('refs') or {}   # node id -> [display name, ref]: same-named SupNodes told apart by their ref
    for n in sup_spec['nodes']:
        obj = SupNode(refs[n][0], ref=refs[n][1]) if n in refs else SupNode(n)
        b.node[n] = obj
        b._name[obj] = n
    for u, v in sup_spec.get('edges', []):
        dsg.add_edge(b.node[u], b.node[v])
    for c in sup_spec['sel']:
        cn = dsg.add_selection_choice(c['key'], b.node[c['origin']], [b.node[o] for o in c['options']])
        b.sel[c['key']] = cn
        b._name[cn] = 'S:' + c['key']
    by_key = {c['key']: c for c in sup_spec['sel']}
    order = sup_spec.get('mapping_order') or [c['key'] for c in sup_spec['sel']]
    for c in [by_key[k] for k in order]:   # the order of add_mapping calls is part of the input
        for m in c.get('mappings', [c['mapping']] if c.get('mapping') else []):
            mp = {}
            for k, v in m['map']:
                mp[None if k is None else src_built.node[k]] = b.node[v]
            if m['type'] == 'option':
                mapping = SupSelChoiceOptionMapping(src_built.sel[m['src']], mp)
            else:
                mapping = SupExistenceMapping(mp)
            dsg.add_mapping(b.sel[c['key']], src_built.dsg, mapping)
    if initialize:
        dsg = dsg.set_start_nodes({b.node[s] for s in sup_spec['start']})
    b.dsg = dsg
    return b
