"""Seeded generators of specs (growth process from the start nodes) and of connector settings."""
import random
import itertools
from . import spec as S

DEFAULTS = dict(
    n_steps=(3, 12), max_nodes=16, max_sel=5, max_opts=4,
    p_sel=.4, p_merge=.2, p_merge_back=0., p_edges_late=0., p_cycle=.12, p_multi_start=.15, p_multi_choice=.1,
    p_opt_existing=.15, p_single_opt=.06, p_dup_id=0.0,
    n_incompat=(0, 2), p_incompat=.5,
    p_constraint=0.0, n_conn=(0, 0), p_grp=.3, p_excl=.3, p_conn_cond=.6, p_side_cond=0., p_grp_open=0., p_grp_twin=0., max_side=3, max_side_total=5,
    n_dv=(0, 0), p_dv_cond=.6, p_dv_link=.0, p_dv_link2=0., p_dv_dup_label=0., p_dv_option=0., n_metric=(0, 0), p_metric_below_conn=0.,
    exotic=False, allow=(), forbid=(),
)

DEG_ALPHABET = [
    {'list': [1]}, {'list': [0, 1]}, {'list': [1, 2]}, {'list': [0, 2]}, {'list': [2]}, {'list': [1, 3]},
    {'min': 0, 'max': 2}, {'min': 1, 'max': 2}, {'min': 0, 'max': 1}, {'min': 1}, {'min': 0}, {'min': 2},
]


def seed_for(*parts) -> int:
    return int(S.digest(list(parts)), 16) % (2 ** 63)


def rng_for(*parts) -> random.Random:
    return random.Random(seed_for(*parts))


def gen_spec(rnd: random.Random, **kw) -> dict:
    """draw specs until one satisfies the exotic/allow/forbid class restrictions"""
    o = dict(DEFAULTS)
    o.update(kw)
    for _ in range(200):
        sp = _grow(rnd, o)
        flags = set(S.classify(sp))
        bad = (flags & S.EXOTIC) - set(o['allow'])
        if not o['exotic'] and bad:
            continue
        if flags & set(o['forbid']):
            continue
        sp['features'] = sorted(flags)
        return sp
    raise RuntimeError('generator could not satisfy class restrictions')


def _grow(rnd, o):
    nodes, edges, sel, incompat, cons, conn = [], [], [], [], [], []
    counter = itertools.count()

    def new(kind='named', prefix='N', **extra):
        nid = '%s%d' % (prefix, next(counter))
        d = {'id': nid, 'kind': kind}
        d.update(extra)
        nodes.append(d)
        return nid

    start = [new()]
    if rnd.random() < o['p_multi_start']:
        start.append(new())
    named = list(start)           # nodes that may originate derivations / choices
    parent_chain = {s: {s} for s in start}  # derive-only ancestors (incl. self) for cycle creation
    origins = []
    edge_set = set()

    def add_edge(u, v):
        if u != v and (u, v) not in edge_set:
            edge_set.add((u, v))
            edges.append([u, v])
            return True
        return False

    n_steps = rnd.randint(*o['n_steps'])
    for _ in range(n_steps):
        if len(nodes) >= o['max_nodes']:
            break
        r = rnd.random()
        if r < o['p_sel'] and len(sel) < o['max_sel']:
            cands = [n for n in named if n not in origins or rnd.random() < o['p_multi_choice']]
            if not cands:
                continue
            origin = rnd.choice(cands)
            n_opt = 1 if rnd.random() < o['p_single_opt'] else rnd.randint(2, o['max_opts'])
            opts = []
            for _i in range(n_opt):
                if rnd.random() < o['p_opt_existing'] and len(named) > 2:
                    c = rnd.choice(named)
                    if c != origin and c not in opts:
                        opts.append(c)
                        continue
                if len(nodes) < o['max_nodes'] + 4:
                    c = new()
                    opts.append(c)
                    named.append(c)
                    parent_chain[c] = {c}
            if not opts:
                continue
            key = 'C%d' % len(sel)
            cid = key
            if sel and rnd.random() < o['p_dup_id']:
                cid = rnd.choice(sel)['id']
            sel.append({'key': key, 'id': cid, 'origin': origin, 'options': opts})
            origins.append(origin)
        elif r < o['p_sel'] + o['p_merge'] and len(named) > 2:
            u, v = rnd.sample(named, 2)
            iu, iv = named.index(u), named.index(v)
            if iu > iv and not (o['p_merge_back'] > 0 and rnd.random() < o['p_merge_back']):
                u, v = v, u     # (normally from the older to the newer node; p_merge_back also allows the reverse)
            if v not in start:
                add_edge(u, v)
        elif r < o['p_sel'] + o['p_merge'] + o['p_cycle'] and len(named) > 2:
            v = rnd.choice(named)
            anc = sorted(a for a in parent_chain.get(v, ()) if a != v and a not in start)   # (set: hash-seed order)
            if anc:
                add_edge(v, rnd.choice(anc))
        else:
            u = rnd.choice(named)
            v = new()
            add_edge(u, v)
            named.append(v)
            parent_chain[v] = set(parent_chain[u]) | {v}

    # incompatibility constraints
    if rnd.random() < o['p_incompat'] and len(named) > 3:
        for _ in range(rnd.randint(*o['n_incompat'])):
            a, b = rnd.sample([n for n in named], 2)
            if [a, b] not in incompat and [b, a] not in incompat:
                incompat.append([a, b])

    # choice constraints among selection choices with equal option counts
    if sel and rnd.random() < o['p_constraint']:
        by_n = {}
        for c in sel:
            by_n.setdefault(len(c['options']), []).append(c['key'])
        groups = [g for n, g in by_n.items() if len(g) >= 2 and n >= 2]
        used = set()
        for g in groups[:2]:
            k = rnd.randint(2, min(3, len(g)))
            chosen = rnd.sample(g, k)
            if used & set(chosen):
                continue
            used.update(chosen)
            cons.append({'type': rnd.choice(S.CON_TYPES), 'choices': chosen})

    # connection choices
    side_cond = [False]
    for ik in range(rnd.randint(*o['n_conn'])):
        def mk_side(prefix, n_max=3):
            entries, names = [], []
            # a whole side hanging under conditional nodes (so that it can be completely absent in a scenario)
            side_cond[0] = o['p_side_cond'] > 0 and rnd.random() < o['p_side_cond']
            n = rnd.randint(1, n_max)
            i = 0
            while i < n:
                if rnd.random() < o['p_grp'] and n - i >= 1:
                    members = []
                    for _m in range(rnd.randint(1, 2)):
                        # (open-ended members only in classes that ask for them: p_grp_open)
                        alpha = DEG_ALPHABET if o['p_grp_open'] > 0 and rnd.random() < o['p_grp_open'] \
                            else DEG_ALPHABET[:9]
                        members.append(new('conn', prefix, deg=rnd.choice(alpha), rep=rnd.random() < .5))
                    if o['p_grp_twin'] > 0 and len(members) == 2 and rnd.random() < o['p_grp_twin']:
                        # twins: the same degrees, but only one of the two accepts parallel connections
                        by_id = {n_['id']: n_ for n_ in nodes}
                        by_id[members[1]]['deg'] = dict(by_id[members[0]]['deg'])
                        by_id[members[1]]['rep'] = not by_id[members[0]]['rep']
                    g = new('grp', 'G')
                    entries.append({'grp': g, 'members': members})
                    names.append(g)
                    for m in members:
                        attach(m)
                    i += 1
                else:
                    c = new('conn', prefix, deg=rnd.choice(DEG_ALPHABET), rep=rnd.random() < .5)
                    entries.append(c)
                    names.append(c)
                    attach(c)
                    i += 1
            return entries, names

        def attach(c):
            # every connector is derived by a generic node: permanent or conditional
            perm = _perm(start, edges)
            pool_c = [n for n in named if n not in perm]
            pool_p = [n for n in named if n in perm]
            if pool_c and (side_cond[0] or rnd.random() < o['p_conn_cond']):
                add_edge(rnd.choice(pool_c), c)
            else:
                add_edge(rnd.choice(pool_p or named), c)

        src, sn = mk_side('A', o['max_side'])
        tgt, tn = mk_side('B', min(o['max_side'], max(1, o['max_side_total'] - len(sn))))
        excl = []
        if rnd.random() < o['p_excl'] and len(sn) * len(tn) > 1:
            for _e in range(rnd.randint(1, 2)):
                p = [rnd.choice(sn), rnd.choice(tn)]
                if p not in excl:
                    excl.append(p)
        conn.append({'id': 'K%d' % ik, 'src': src, 'tgt': tgt, 'exclude': excl})

    # design-variable and metric nodes
    dvs = []
    for _ in range(rnd.randint(*o['n_dv'])):
        perm = _perm(start, edges)
        pool = [n for n in named if (n not in perm) == (rnd.random() < o['p_dv_cond'])] or named
        if rnd.random() < .5:
            d = new('dv', 'D', bounds=rnd.choice([[0, 1], [-2.5, 4.0], [10, 20], [-1, 1], [-1.5, 0.5], [-3, -1],
                                                  [0.5, 2]]))
        else:
            d = new('dv', 'D', options=['o%d' % i for i in range(rnd.randint(1, 4))])
        if o['p_dv_dup_label'] > 0 and rnd.random() < o['p_dv_dup_label']:
            [nd for nd in nodes if nd['id'] == d][0]['label'] = 'size%d' % rnd.randint(0, 1)
        if sel and o['p_dv_option'] > 0 and rnd.random() < o['p_dv_option']:
            # the design-variable node is itself an OPTION of a selection choice (not derived by a generic node)
            c_ = rnd.choice(sel)
            c_['options'].append(d)
        else:
            add_edge(rnd.choice(pool), d)
        dvs.append(d)
    if dvs and o['p_dv_option'] > 0 and len(named) > 3 and rnd.random() < .6:
        # an incompatibility constraint between an option node and a design-variable node
        opts_ = [x for c in sel for x in c['options'] if x not in dvs]
        if opts_:
            pair = [rnd.choice(opts_), rnd.choice(dvs)]
            if pair not in incompat:
                incompat.append(pair)
    if len(dvs) >= 2 and rnd.random() < o['p_dv_link']:
        nm = {n['id']: n for n in nodes}
        disc = [d for d in dvs if 'options' in nm[d]]
        cont = [d for d in dvs if 'bounds' in nm[d]]
        grp = disc if len(disc) >= 2 else cont
        if len(grp) >= 2:
            if grp is disc:
                n0 = len(nm[grp[0]]['options'])
                for d in grp[1:]:
                    nm[d]['options'] = ['o%d' % i for i in range(n0)]
            if o['p_dv_link2'] > 0 and len(dvs) >= 4 and rnd.random() < o['p_dv_link2']:
                # several LINKED groups of two, paired after a shuffle: their members usually INTERLEAVE in the order
                # of the design-variable nodes (X1~X3, X2~X4), so "one variable per group" cannot be decided by
                # looking at neighbours only (seeded change C16-k)
                for kind in (disc, cont):
                    kind = list(kind)
                    rnd.shuffle(kind)
                    while len(kind) >= 2:
                        a, b = kind.pop(), kind.pop()
                        if 'options' in nm[a]:
                            nm[b]['options'] = ['o%d' % i for i in range(len(nm[a]['options']))]
                        cons.append({'type': 'LINKED', 'choices': sorted([a, b])})
            else:
                cons.append({'type': 'LINKED', 'choices': grp[:rnd.randint(2, len(grp))]})
    for _ in range(rnd.randint(*o['n_metric'])):
        m = new('metric', 'M', dir=rnd.choice([None, -1, 1]), ref=rnd.choice([None, 0.0, 2.5, -1.0]),
                type=rnd.choice([None, None, 'OBJECTIVE', 'CONSTRAINT', 'NONE']))
        conns_ = [nd['id'] for nd in nodes if nd['kind'] == 'conn']
        if conns_ and o['p_metric_below_conn'] > 0 and rnd.random() < o['p_metric_below_conn']:
            add_edge(rnd.choice(conns_), m)     # a metric of a (possibly conditional) port
        else:
            add_edge(rnd.choice(named), m)

    out = {'nodes': nodes, 'edges': edges, 'sel': sel, 'incompat': incompat,
           'constraints': cons, 'conn': conn, 'start': start}
    if o['p_edges_late'] > 0 and rnd.random() < o['p_edges_late']:
        out['edges_after_choices'] = True
    return S.normalize(out)


def _perm(start, edges):
    succ = {}
    for u, v in edges:
        succ.setdefault(u, []).append(v)
    seen, todo = set(start), list(start)
    while todo:
        x = todo.pop()
        for y in succ.get(x, ()):
            if y not in seen:
                seen.add(y)
                todo.append(y)
    return seen


# ---------------------------------------------------------------------------------------------
# connector settings (C09/C10/C12)
# ---------------------------------------------------------------------------------------------

def gen_settings(rnd, n_src=(1, 3), n_tgt=(1, 3), p_excl=.3, p_patterns=.5, p_override=.2, alphabet=None,
                 p_parallel=.15):
    alphabet = alphabet or DEG_ALPHABET
    ns, nt = rnd.randint(*n_src), rnd.randint(*n_tgt)

    def node():
        return {'deg': rnd.choice(alphabet), 'rep': rnd.random() < .5}
    cs = {'src': [node() for _ in range(ns)], 'tgt': [node() for _ in range(nt)], 'excluded': [], 'patterns': None,
          'max_conn_parallel': None}
    if rnd.random() < p_excl and ns * nt > 1:
        for _ in range(rnd.randint(1, 2)):
            p = [rnd.randrange(ns), rnd.randrange(nt)]
            if p not in cs['excluded']:
                cs['excluded'].append(p)
    if rnd.random() < p_parallel:
        cs['max_conn_parallel'] = rnd.randint(1, 3)
    if rnd.random() < p_patterns:
        pats, seen = [], set()
        for _ in range(rnd.randint(1, 4)):
            p = {'src_exists': [rnd.random() < .7 for _ in range(ns)],
                 'tgt_exists': [rnd.random() < .7 for _ in range(nt)], 'src_override': {}, 'tgt_override': {}}
            if rnd.random() < p_override:
                side = rnd.choice(['src', 'tgt'])
                i = rnd.randrange(ns if side == 'src' else nt)
                if p[side + '_exists'][i]:
                    p[side + '_override'][str(i)] = sorted(rnd.sample(range(5), rnd.randint(1, 3)))
            k = S.canon(pattern_key(p))
            if k not in seen:
                seen.add(k)
                pats.append(p)
        cs['patterns'] = pats
    return cs


def pattern_key(p):
    """canonical identity of an existence pattern as the library sees it (absent == override [0])"""
    def side(ex, ov):
        d = {int(k): list(v) for k, v in (ov or {}).items()}
        for i, e in enumerate(ex or []):
            if not e:
                d[i] = [0]
        return sorted(d.items())
    return [side(p.get('src_exists'), p.get('src_override')), side(p.get('tgt_exists'), p.get('tgt_override'))]


def gen_replica(rnd):
    """The same sub-architecture instantiated several times: k elements, each with a selection choice of the SAME
    decision id over its OWN option nodes that carry the same display names ('label'); the choices differ only in
    where they originate.  (Node ids stay unique; only what the library sees as node names repeats.)"""
    k = rnd.randint(3, 5)
    n_opts = rnd.randint(2, 3)
    nodes = [{'id': 'Root', 'kind': 'named'}]
    edges, sel = [], []
    with_child = rnd.random() < .5
    for i in range(k):
        e = 'E%d' % i
        nodes.append({'id': e, 'kind': 'named'})
        edges.append(['Root', e])
        opts = []
        for j in range(n_opts):
            o = '%s_T%d' % (e, j)
            nodes.append({'id': o, 'kind': 'named', 'label': 'Type%d' % j})
            opts.append(o)
        if with_child:
            c = '%s_X' % e
            nodes.append({'id': c, 'kind': 'named', 'label': 'Extra'})
            edges.append([opts[0], c])
        sel.append({'key': 'C%d' % i, 'id': 'Type', 'origin': e, 'options': opts})
    sp = {'nodes': nodes, 'edges': edges, 'sel': sel, 'incompat': [], 'constraints': [], 'conn': [], 'start': ['Root']}
    if rnd.random() < .4:
        nodes.append({'id': 'P', 'kind': 'named'})
        nodes.append({'id': 'Q', 'kind': 'named'})
        sel.append({'key': 'CZ', 'id': 'Zed', 'origin': 'Root', 'options': ['P', 'Q']})
    return sp


def gen_option_tie(rnd):
    """A node that is an option of two selection choices at DIFFERENT positions: it keeps the option number of the
    first choice, so in the second choice two options carry the same number (their order must still be defined)."""
    nodes = [{'id': 'S', 'kind': 'named'}]
    edges, sel = [], []
    for g in range(rnd.randint(1, 2)):
        a, b_ = 'A%d' % g, 'B%d' % g
        nodes += [{'id': a, 'kind': 'named'}, {'id': b_, 'kind': 'named'}]
        edges += [['S', a], ['S', b_]]
        n1 = rnd.randint(2, 4)
        first = ['P%d_%d' % (g, j) for j in range(n1)]
        nodes += [{'id': o, 'kind': 'named'} for o in first]
        shared = first[rnd.randint(1, n1 - 1)]          # position >= 1 in the first choice
        n2 = rnd.randint(1, 3)
        extra = ['Q%d_%d' % (g, j) for j in range(n2)]
        nodes += [{'id': o, 'kind': 'named'} for o in extra]
        second = [shared] + extra                        # position 0 in the second choice
        if rnd.random() < .4:
            rnd.shuffle(second)
        sel.append({'key': 'F%d' % g, 'id': 'F%d' % g, 'origin': a, 'options': first})
        sel.append({'key': 'G%d' % g, 'id': 'G%d' % g, 'origin': b_, 'options': second})
        for o in extra[:1]:
            nodes.append({'id': o + 'x', 'kind': 'named'})
            edges.append([o, o + 'x'])
    return {'nodes': nodes, 'edges': edges, 'sel': sel, 'incompat': [], 'constraints': [], 'conn': [], 'start': ['S']}


def gen_necessary_conflict(rnd):
    """Permanent selection choices on separate slots; a node X that (almost) every option of one choice derives, and an
    incompatibility between X and an option of ANOTHER choice: that option is never admissible, but nothing shows it
    before one of the two choices is taken.  Node names and decision ids are drawn so that both name orders of the
    incompatible pair and both decision orders of the two choices occur."""
    if rnd.random() < .4:
        return _necessary_conflict_nested(rnd)
    n = rnd.randint(2, 3)
    keys = rnd.sample(['A', 'B', 'C', 'D'], n)
    nodes = [{'id': 'S', 'kind': 'named'}]
    edges, sel, incompat = [], [], []
    opts = []
    for i, k in enumerate(keys):
        slot = 'Slot%d' % i
        nodes.append({'id': slot, 'kind': 'named'})
        edges.append(['S', slot])
        pre = rnd.choice('EGKMPRT')
        o = ['%s%d_%d' % (pre, i, j) for j in range(rnd.randint(2, 3))]
        nodes += [{'id': x, 'kind': 'named'} for x in o]
        sel.append({'key': k, 'id': k, 'origin': slot, 'options': o})
        opts.append(o)
    carrier, victim = rnd.sample(range(n), 2)
    x = rnd.choice(['B_shared', 'Common', 'Zshared', 'Xnode'])
    nodes.append({'id': x, 'kind': 'named'})
    derive = list(opts[carrier])
    if rnd.random() < .3:
        derive.pop(rnd.randrange(len(derive)))      # avoidable: one option of the carrier does not need X
    for o in derive:
        edges.append([o, x])
    if rnd.random() < .4:
        nodes.append({'id': 'Below', 'kind': 'named'})
        edges.append([x, 'Below'])
    bad = rnd.sample(opts[victim], rnd.randint(1, len(opts[victim]) - 1))
    for o in bad:
        incompat.append([o, x] if rnd.random() < .5 else [x, o])
    if rnd.random() < .3 and n == 3:
        third = [i for i in range(n) if i not in (carrier, victim)][0]
        incompat.append([rnd.choice(opts[third]), rnd.choice(opts[victim])])
    return {'nodes': nodes, 'edges': edges, 'sel': sel, 'incompat': incompat, 'constraints': [], 'conn': [],
            'start': ['S']}


def gen_group_conditional(rnd):
    """A grouping connector whose first member is permanent and whose other members each hang below one option of a
    selection choice (the last option may add none): every selection scenario has the SAME connectors existing on the
    connection-choice level (the grouping node is always there) but another aggregated degree -- scenarios that differ
    only in a degree override, not in which nodes exist."""
    n_mem = rnd.randint(2, 3)
    mem_deg = [rnd.choice([{'list': [1]}, {'list': [1]}, {'list': [0, 1]}, {'list': [2]}, {'list': [1, 2]}])
               for _ in range(n_mem)]
    nodes = [{'id': 'Root', 'kind': 'named'}]
    edges = []
    members = []
    for i, d in enumerate(mem_deg):
        m = 'G%d' % i
        nodes.append({'id': m, 'kind': 'conn', 'deg': d, 'rep': False})
        members.append(m)
    nodes.append({'id': 'Grp', 'kind': 'grp'})
    edges.append(['Root', 'G0'])
    n_opt = n_mem - 1 + (1 if rnd.random() < .6 else 0)
    opts = []
    for j in range(max(n_opt, 2)):
        o = 'O%d' % j
        nodes.append({'id': o, 'kind': 'named'})
        opts.append(o)
        if j + 1 < n_mem:
            edges.append([o, members[j + 1]])
    other = []
    if rnd.random() < .7:
        nodes.append({'id': 'S', 'kind': 'conn', 'deg': rnd.choice([{'list': [0, 1, 2]}, {'list': [0, 1]}, {'min': 0}]),
                      'rep': rnd.random() < .3})
        edges.append(['Root', 'S'])
        other.append('S')
    tgts = []
    for j in range(rnd.randint(2, 3)):
        t = 'T%d' % j
        nodes.append({'id': t, 'kind': 'conn', 'deg': rnd.choice([{'list': [0, 1, 2]}, {'list': [0, 1]}, {'min': 0, 'max': 2},
                                                                 {'list': [1, 2]}]), 'rep': rnd.random() < .3})
        edges.append(['Root', t])
        tgts.append(t)
    grp_side = [{'grp': 'Grp', 'members': members}] + other
    flip = rnd.random() < .3
    conn = [{'id': 'K', 'src': tgts if flip else grp_side, 'tgt': grp_side if flip else tgts, 'exclude': []}]
    sel = [{'key': 'X', 'id': 'X', 'origin': 'Root', 'options': opts}]
    return {'nodes': nodes, 'edges': edges, 'sel': sel, 'incompat': [], 'constraints': [], 'conn': conn,
            'start': ['Root']}


def _necessary_conflict_nested(rnd):
    """Variant: the choice whose every option derives X is itself NESTED below an option B of a first choice, and X is
    incompatible with an option U of a second, permanent choice: U rules out B (B needs X whatever is taken below it)
    but B alone does not show that it rules out U -- a one-directional influence between two choices.  An ordinary
    option-option incompatibility between the same two choices is usually added, which makes them mutually coupled."""
    k1, k2, k3 = rnd.sample(['A', 'B', 'C', 'D', 'E'], 3)
    nodes = [{'id': i, 'kind': 'named'} for i in ('S', 'Slot0', 'Slot1')]
    edges = [['S', 'Slot0'], ['S', 'Slot1']]
    p1, p2 = rnd.choice('GKMP'), rnd.choice('RTV')
    o1 = ['%s1_%d' % (p1, j) for j in range(rnd.randint(2, 3))]      # options of the first choice; the last one is B
    o2 = ['%s2_%d' % (p2, j) for j in range(rnd.randint(2, 3))]      # options of the second choice; the last one is U
    o3 = ['W%d' % j for j in range(rnd.randint(2, 3))]
    x = rnd.choice(['B_shared', 'Common', 'Zshared', 'Xnode'])
    nodes += [{'id': i, 'kind': 'named'} for i in o1 + o2 + o3 + [x]]
    sel = [{'key': k1, 'id': k1, 'origin': 'Slot0', 'options': o1},
           {'key': k2, 'id': k2, 'origin': 'Slot1', 'options': o2},
           {'key': k3, 'id': k3, 'origin': o1[-1], 'options': o3}]
    derive = list(o3)
    if rnd.random() < .2:
        derive.pop(rnd.randrange(len(derive)))
    edges += [[o, x] for o in derive]
    incompat = [[o2[-1], x] if rnd.random() < .5 else [x, o2[-1]]]
    if rnd.random() < .75:
        incompat.append([o1[0], o2[0]])
    if rnd.random() < .3:
        nodes.append({'id': 'Below', 'kind': 'named'})
        edges.append([o2[0], 'Below'])
    return {'nodes': nodes, 'edges': edges, 'sel': sel, 'incompat': incompat, 'constraints': [], 'conn': [],
            'start': ['S']}


def gen_conn3_simple(rnd):
    """Three independent connection choices that are always feasible together: each a single source taking exactly one
    connection to one of two or three optional targets (a few variations in degree), optionally next to a selection
    choice.  Every combination of their values is an architecture, so anything keyed on "what was applied before" is
    exercised by vectors that differ in the first choice only."""
    nodes = [{'id': 'Root', 'kind': 'named'}]
    edges, conn, sel = [], [], []
    for k in range(3):
        s_ = 'S%d' % k
        nodes.append({'id': s_, 'kind': 'conn', 'deg': rnd.choice([{'list': [1]}, {'list': [1]}, {'list': [1, 2]}]),
                      'rep': False})
        edges.append(['Root', s_])
        tg = []
        for j in range(rnd.randint(2, 3)):
            t_ = 'T%d%s' % (k, 'abc'[j])
            nodes.append({'id': t_, 'kind': 'conn', 'deg': {'list': [0, 1]}, 'rep': False})
            edges.append(['Root', t_])
            tg.append(t_)
        conn.append({'id': 'K%d' % k, 'src': [s_], 'tgt': tg, 'exclude': []})
    if rnd.random() < .4:
        nodes += [{'id': i, 'kind': 'named'} for i in ('Slot', 'P', 'Q')]
        edges.append(['Root', 'Slot'])
        sel.append({'key': 'C', 'id': 'C', 'origin': 'Slot', 'options': ['P', 'Q']})
    return {'nodes': nodes, 'edges': edges, 'sel': sel, 'incompat': [], 'constraints': [], 'conn': conn,
            'start': ['Root']}
