"""Workload drivers over the real API (walks, decodes) shared by several checks."""
import itertools
import traceback
import numpy as np
from . import spec as S, build as B, observe as O, refmodel as R


def api_constraints(b):
    """choice constraints over selection choices as the API reports them, by name"""
    import adsg_core.graph.adsg_nodes as an
    out = []
    if b.dsg is None:
        return None
    rev = {v: k for k, v in b.sel.items()}
    for c in b.dsg.get_choice_constraints():
        if c.options is None:
            continue
        if not all(isinstance(n, an.SelectionChoiceNode) for n in c.nodes):
            continue
        out.append({'type': c.type.name, 'choices': [rev[n] for n in c.nodes],
                    'options': [[b.name(o) for o in ol] for ol in c.options]})
    return out


class Case:
    """a built spec with its reference model"""

    def __init__(self, spec, with_dv=False, ref_limit=20000):
        self.spec = S.normalize(spec)
        self.flags = S.classify(self.spec)
        self.b = B.build(self.spec)
        self.cons = api_constraints(self.b) if self.b.dsg is not None else None
        self.model = R.Model(self.spec, cons=self.cons)
        self.ref_error = None
        try:
            self.archs = self.model.architectures(with_dv=with_dv, limit=ref_limit)
        except OverflowError as e:
            self.archs = None
            self.ref_error = str(e)
        self._keys = None

    def rebuild(self):
        return B.build(self.spec)

    @property
    def ref_keys(self):
        if self._keys is None and self.archs is not None:
            self._keys = {}
            for a in self.archs:
                self._keys.setdefault(O.ref_arch_key(self.model, a), []).append(a)
        return self._keys


def exc_info(e):
    tb = traceback.extract_tb(e.__traceback__)
    site = None
    for fr in reversed(tb):
        if 'adsg_core' in fr.filename:
            site = '%s:%s:%s' % (fr.filename.split('adsg_core/')[-1], fr.lineno, fr.name)
            break
    out = {'type': type(e).__name__, 'msg': str(e)[:300], 'site': site}
    if site is None and tb:
        out['harness_site'] = '%s:%s:%s' % (tb[-1].filename.split('/')[-1], tb[-1].lineno, tb[-1].name)
    return out


def walk(b, max_paths=5000, orders='all', rnd=None, stop_infeasible=True):
    """Take every active selection choice with every option, in every order (DFS over the real API).
    yields (path, dsg) for every leaf (no selection choice active any more); path = [(sel name, option name)]"""
    import adsg_core.graph.adsg_nodes as an
    n_paths = [0]
    stack = [([], b.dsg)]
    while stack:
        path, g = stack.pop()
        if stop_infeasible and not g.feasible:
            # an infeasible graph is a dead end: nobody resolves further choices on it
            n_paths[0] += 1
            yield path, g, None
            if n_paths[0] >= max_paths:
                return
            continue
        nxt = [n for n in g.get_ordered_next_choice_nodes() if isinstance(n, an.SelectionChoiceNode)]
        if not nxt:
            n_paths[0] += 1
            yield path, g, None
            if n_paths[0] >= max_paths:
                return
            continue
        if orders == 'first':
            nxt = nxt[:1]
        elif orders == 'random' and rnd is not None:
            nxt = [rnd.choice(nxt)]
        for cn in nxt:
            try:
                opts = g.get_option_nodes(cn)
            except Exception as e:  # noqa -- an active choice that is not in the graph any more
                n_paths[0] += 1
                yield path + [(b.name(cn), '<get_option_nodes>')], None, e
                continue
            for o in opts:
                try:
                    g2 = g.get_for_apply_selection_choice(cn, o)
                except Exception as e:  # noqa
                    n_paths[0] += 1
                    yield path + [(b.name(cn), b.name(o))], None, e
                    continue
                stack.append((path + [(b.name(cn), b.name(o))], g2))


def descend_infeasible(b, g, rnd, max_steps=12):
    """From a graph reported infeasible, keep taking the next selection choice with a random option (as the fast
    encoder does while looking for a neighbouring vector).  Returns ('became_feasible', path) if some descendant
    reports feasible again, ('exception', path, exc) for an exception other than NoOptionError, else ('stayed', n)."""
    import adsg_core.graph.adsg_nodes as an
    from adsg_core.graph.choices import NoOptionError
    path = []
    for step in range(max_steps):
        nxt = [n for n in g.get_ordered_next_choice_nodes() if isinstance(n, an.SelectionChoiceNode)]
        if not nxt:
            break
        cn = nxt[0]
        try:
            opts = g.get_option_nodes(cn)
            if not opts:
                break
            o = opts[rnd.randrange(len(opts))]
            g = g.get_for_apply_selection_choice(cn, o)
        except NoOptionError:
            break
        except Exception as e:  # noqa
            return ('exception', path + [(b.name(cn), '?')], e)
        path.append((b.name(cn), b.name(o)))
        if g.feasible:
            return ('became_feasible', path, g)
    return ('stayed', len(path))


def finish_connections(g, b, max_sets=200):
    """resolve the connection choices of a selection-final graph in every offered way;
    yields final graphs (or (None, exc))"""
    import adsg_core.graph.adsg_nodes as an
    cns = [n for n in g.get_ordered_next_choice_nodes() if isinstance(n, an.ConnectionChoiceNode)]
    if not cns:
        yield g
        return
    per = []
    for cn in cns:
        per.append([(cn, edges) for edges in itertools.islice(cn.iter_conn_edges(g), max_sets)])
    for combo in itertools.product(*per):
        yield g.get_for_apply_connection_choices(list(combo))


def declared_space(gp, cap, rnd):
    """all vectors of the declared discrete space (continuous variables at a few values), or a sample"""
    dvs = gp.des_vars
    axes = []
    for dv in dvs:
        if dv.is_discrete:
            axes.append(list(range(dv.n_opts)))
        else:
            lo, hi = dv.bounds
            axes.append([lo, lo + .3 * (hi - lo), hi])
    n = 1
    for a in axes:
        n *= len(a)
    if n <= cap:
        return [list(x) for x in itertools.product(*axes)], True
    out = []
    for _ in range(cap):
        out.append([rnd.choice(a) for a in axes])
    return out, False


def to_list(x):
    return [v.item() if hasattr(v, 'item') else v for v in x]
