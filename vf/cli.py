"""./check <ID> ...: parent process of one check run"""
import os
import sys
import argparse
import importlib


def main():
    ap = argparse.ArgumentParser()
    ap.add_argument('prop')
    ap.add_argument('--tier', default=os.environ.get('VERIF_TIER', 'quick'), choices=['quick', 'thorough'])
    ap.add_argument('--seed', type=int, default=int(os.environ.get('VERIF_SEED', '0') or 0))
    ap.add_argument('--repo', default=os.environ.get('VERIF_REPO', '/repo'))
    ap.add_argument('--replay', default=None)
    ap.add_argument('--jobs', type=int, default=None)
    ap.add_argument('--selftest', action='store_true')
    a = ap.parse_args()
    os.environ.setdefault('PYTHONHASHSEED', '0')
    from vf import core, refmodel
    fails = refmodel.selftest()
    if a.selftest or a.prop == 'selftest':
        print('selftest:', fails or 'ok')
        sys.exit(2 if fails else 0)
    if fails:
        print('INCONCLUSIVE property=%s reason=reference-model self-test failed: %s' % (a.prop, fails))
        sys.exit(core.EXIT_INCONCLUSIVE)
    core.ensure_deps()
    mod = importlib.import_module('vf.checks.%s' % a.prop.lower())
    run = core.Run(a.prop.upper(), a.tier, a.seed, os.path.abspath(a.repo), replay=a.replay, jobs=a.jobs)
    mod.main(run)


if __name__ == '__main__':
    main()
