"""MANIFEST.setup_cmd: nothing to build (pure Python); runs the reference-model self-test and an import smoke test"""
import sys
from vf import core, refmodel


def main():
    core.ensure_deps()
    fails = refmodel.selftest()
    import subprocess
    r = subprocess.run([core.PY, '-c', 'import adsg_core, numpy, networkx, numba, pandas'], capture_output=True, text=True)
    print('setup: import smoke test', 'ok' if r.returncode == 0 else r.stderr[-500:], '; reference self-test:', fails or 'ok')
    fails = fails or ([r.stderr[-200:]] if r.returncode else [])
    sys.exit(1 if fails else 0)


if __name__ == '__main__':
    main()
