"""JSON spec model of one design-space-graph input (stdlib only).

A spec is the unit of generation, replay and shrinking.  Shape:

{"nodes": [{"id": "N0", "kind": "named"},
           {"id": "A0", "kind": "conn", "deg": {"list": [1, 2]} | {"min": 0, "max": 2} | {"min": 1}, "rep": true},
           {"id": "D0", "kind": "dv", "bounds": [0, 1]} | {"id": "D1", "kind": "dv", "options": ["a", "b"]},
           {"id": "M0", "kind": "metric", "dir": -1, "ref": 2.0, "type": "OBJECTIVE"|"CONSTRAINT"|"NONE"|null}],
 "edges": [["N0", "N3"]],                                   derivation edges
 "sel": [{"key": "C0", "id": "C0", "origin": "N0", "options": ["N1", "N2"]}],
 "incompat": [["N3", "N7"]],
 "constraints": [{"type": "LINKED|PERMUTATION|UNORDERED|UNORDERED_NOREPL", "choices": ["C0", "C1"]}],
 "conn": [{"id": "K0", "src": ["A0", {"grp": "G0", "members": ["A1", "A2"]}], "tgt": ["B0"],
           "exclude": [["A0", "B0"]]}],
 "start": ["N0"]}

`sel[].key` is unique; `sel[].id` is the decision id handed to the library (may be
duplicated between choices, as the guide itself does).  Constraint `choices` are
sel keys or dv node ids.
"""
import json
import hashlib
import itertools

CON_TYPES = ('LINKED', 'PERMUTATION', 'UNORDERED', 'UNORDERED_NOREPL')


def canon(obj) -> str:
    return json.dumps(obj, sort_keys=True, separators=(',', ':'), default=_default)


def _default(o):
    if isinstance(o, (set, frozenset)):
        return sorted(o, key=canon)
    if isinstance(o, tuple):
        return list(o)
    if hasattr(o, 'item'):
        return o.item()
    if hasattr(o, 'tolist'):
        return o.tolist()
    raise TypeError(type(o))


def digest(obj) -> str:
    return hashlib.sha1(canon(obj).encode()).hexdigest()[:16]


def normalize(spec: dict) -> dict:
    s = {'nodes': [dict(n) for n in spec.get('nodes', [])],
         'edges': [list(e) for e in spec.get('edges', [])],
         'sel': [], 'incompat': [list(p) for p in spec.get('incompat', [])],
         'constraints': [dict(c) for c in spec.get('constraints', [])],
         'conn': [dict(c) for c in spec.get('conn', [])],
         'start': list(spec.get('start', []))}
    for i, c in enumerate(spec.get('sel', [])):
        c = dict(c)
        c.setdefault('key', c.get('id', 'C%d' % i))
        c.setdefault('id', c['key'])
        s['sel'].append(c)
    for k in spec:
        if k not in s:
            s[k] = spec[k]
    return s


def validate(spec: dict):
    ids = [n['id'] for n in spec['nodes']]
    assert len(ids) == len(set(ids)), 'duplicate node id'
    kinds = {n['id']: n['kind'] for n in spec['nodes']}
    for u, v in spec['edges']:
        assert u in kinds and v in kinds, ('edge', u, v)
    keys = [c['key'] for c in spec['sel']]
    assert len(keys) == len(set(keys))
    for c in spec['sel']:
        assert c['origin'] in kinds
        assert all(o in kinds for o in c['options'])
        assert len(set(c['options'])) == len(c['options'])
    for s in spec['start']:
        assert s in kinds
    for k in spec['conn']:
        for side in ('src', 'tgt'):
            assert len(k[side]) >= 1
            for e in k[side]:
                if isinstance(e, dict):
                    assert kinds[e['grp']] == 'grp'
                    assert all(kinds[m] == 'conn' for m in e['members'])
                else:
                    assert kinds[e] == 'conn', e
    return True


# --- helpers shared by the reference model and the classifier --------------------------------------

def node_map(spec):
    return {n['id']: n for n in spec['nodes']}


def conn_endpoints(k, side):
    """names of the (grouping or plain) connector nodes on one side of a connection choice"""
    return [e['grp'] if isinstance(e, dict) else e for e in k[side]]


def group_members(spec):
    out = {}
    for k in spec['conn']:
        for side in ('src', 'tgt'):
            for e in k[side]:
                if isinstance(e, dict):
                    out[e['grp']] = list(e['members'])
    return out


def derive_edges(spec):
    """all derivation edges incl. member -> grouping node"""
    edges = [tuple(e) for e in spec['edges']]
    for g, members in group_members(spec).items():
        for m in members:
            edges.append((m, g))
    return edges


def classify(spec) -> list:
    """Structural feature flags recomputed from the finished spec (never trusted from the generator)."""
    flags = set()
    nm = node_map(spec)
    dedges = derive_edges(spec)
    succ = {}
    for u, v in dedges:
        succ.setdefault(u, set()).add(v)
    origin_of = {c['key']: c['origin'] for c in spec['sel']}
    # reach over derivation and choice->option edges
    full = {k: set(v) for k, v in succ.items()}
    for c in spec['sel']:
        full.setdefault(c['origin'], set()).update(c['options'])

    def reach(src, graph):
        seen, todo = set(), [src]
        while todo:
            x = todo.pop()
            for y in graph.get(x, ()):
                if y not in seen:
                    seen.add(y)
                    todo.append(y)
        return seen

    # permanent nodes: derivation closure of the start nodes
    perm = set(spec['start'])
    for s in spec['start']:
        perm |= reach(s, succ)
    reachable = set(spec['start'])
    for s in spec['start']:
        reachable |= reach(s, full)

    if len(spec['start']) > 1:
        flags.add('multi_start')
    # cycles among derivation edges
    for n in nm:
        if n in reach(n, succ):
            flags.add('cycles')
            break
    origins = [c['origin'] for c in spec['sel']]
    if len(origins) != len(set(origins)):
        flags.add('multi_choice_per_node')
    opt_count = {}
    for c in spec['sel']:
        for o in c['options']:
            opt_count[o] = opt_count.get(o, 0) + 1
    if any(v > 1 for v in opt_count.values()):
        flags.add('shared_option')
    all_opts = set(opt_count)
    tgt_of_derive = {v for _, v in dedges}
    if all_opts & tgt_of_derive:
        flags.add('opt_derived_elsewhere')
    if all_opts & perm:
        flags.add('opt_is_permanent')
    for c in spec['sel']:
        if any(o == c['origin'] or c['origin'] in reach(o, full) for o in c['options']):
            flags.add('opt_derives_origin')
        if any(o in succ.get(c['origin'], ()) for o in c['options']):
            flags.add('opt_derived_by_origin')
    # choice loop: some option of choice X reaches origin of X through another choice's option edge
    for c in spec['sel']:
        for o in c['options']:
            r = reach(o, full) | {o}
            if c['origin'] in r:
                flags.add('choice_loop')
    for a, b in spec['incompat']:
        pa, pb = a in perm, b in perm
        if pa and pb:
            flags.add('incompat_perm_perm')
        elif pa or pb:
            flags.add('incompat_perm_cond')
        else:
            flags.add('incompat_cond')
        if b in reach(a, full) or a in reach(b, full):
            flags.add('incompat_self')
    if set(nm) - reachable:
        flags.add('unreachable_part')
    ids = [c['id'] for c in spec['sel']]
    if len(ids) != len(set(ids)):
        flags.add('dup_choice_id')
    if spec['conn']:
        flags.add('conn')
        for k in spec['conn']:
            for side in ('src', 'tgt'):
                for e in k[side]:
                    if isinstance(e, dict):
                        flags.add('conn_grp')
                        names = e['members']
                    else:
                        names = [e]
                    for nme in names:
                        flags.add('conn_perm' if nme in perm else 'conn_cond_' + side)
            if k.get('exclude'):
                flags.add('conn_excl')
            for side in ('src', 'tgt'):
                for e in k[side]:
                    if isinstance(e, dict) and len({bool(nm[m].get('rep', False)) for m in e['members']}) > 1:
                        flags.add('conn_grp_mixed_rep')
                    if isinstance(e, dict) and any('list' not in nm[m].get('deg', {'list': [1]}) and
                                                   nm[m]['deg'].get('max') is None for m in e['members']):
                        flags.add('conn_grp_open_ended')
    # a connection choice one side of which can never exist (incompatible with a permanent node, or only reachable
    # through such nodes) while the other side can
    # (nodes that exist in every architecture: permanent ones and, transitively, the option of a single-option choice)
    always = set(perm)
    grown = True
    while grown:
        grown = False
        for c in spec['sel']:
            if len(c['options']) == 1 and c['origin'] in always and c['options'][0] not in always:
                always |= {c['options'][0]} | reach(c['options'][0], succ)
                grown = True
    dead = set()
    for a, b in spec['incompat']:
        if a in always and b not in always:
            dead.add(b)
        if b in always and a not in always:
            dead.add(a)
    changed = bool(dead)
    while changed:
        changed = False
        for u, vs in succ.items():
            if u not in dead and vs & dead:
                dead.add(u)
                changed = True
        for c in spec['sel']:   # the origin of a choice that has no option left can never exist either
            if c['origin'] not in dead and c['options'] and all(o in dead for o in c['options']):
                dead.add(c['origin'])
                changed = True
    # LINKED selection choices whose numbers of (not pruned) options differ
    for c in spec['constraints']:
        if c['type'] == 'LINKED' and all(x in origin_of for x in c['choices']):
            by_key = {c2['key']: c2 for c2 in spec['sel']}
            if len({len([o for o in by_key[x]['options'] if o not in dead]) for x in c['choices']}) > 1:
                flags.add('con_linked_unequal')
    if dead and spec['conn']:
        live_graph = {u: {v for v in vs if v not in dead} for u, vs in full.items() if u not in dead}
        alive = {s0 for s0 in spec['start'] if s0 not in dead}
        for s0 in list(alive):
            alive |= reach(s0, live_graph)
        for k in spec['conn']:
            sides = []
            for side in ('src', 'tgt'):
                names = []
                for e in k[side]:
                    names += e['members'] if isinstance(e, dict) else [e]
                sides.append(any(nme in alive for nme in names))
            if sides[0] != sides[1]:
                flags.add('conn_side_dead')
    for n in spec['nodes']:
        if n['kind'] == 'dv':
            flags.add('dv_disc' if 'options' in n else 'dv_cont')
            if n['id'] not in perm:
                flags.add('dv_cond')
        if n['kind'] == 'metric':
            flags.add('metrics')
    sel_by_key = {c['key']: c for c in spec['sel']}
    for c in spec['constraints']:
        if all(x in sel_by_key for x in c['choices']):
            order = sorted(c['choices'], key=lambda k: (sel_by_key[k]['id'], k))
            origs = [sel_by_key[k]['origin'] for k in order]
            if c['type'] in ('UNORDERED', 'UNORDERED_NOREPL'):
                for i in range(len(order)):
                    for j in range(i + 1, len(order)):
                        # choice j can become active before choice i unless it can only be reached through an option
                        # edge of choice i
                        wo = {k: set(v) for k, v in succ.items()}
                        for c2 in spec['sel']:
                            if c2['key'] != order[i]:
                                wo.setdefault(c2['origin'], set()).update(c2['options'])
                        j_without_i = origs[j] in spec['start'] or any(origs[j] in reach(s0, wo)
                                                                       for s0 in spec['start'])
                        if origs[i] not in perm and j_without_i:
                            flags.add('con_order_later_active_first')
            if c['type'] == 'PERMUTATION' and len(order) > max(len(sel_by_key[k]['options']) for k in order) \
                    and not all(o in perm for o in origs):
                flags.add('con_perm_short')
    pred = {}
    for u, v in dedges:
        pred.setdefault(v, set()).add(u)
    for c in spec['constraints']:
        flags.add('con_' + c['type'].lower())
        if all(x in nm for x in c['choices']):
            flags.add('dv_linked')
            # members that are not always present together (one can exist without the other)
            if not all(x in perm for x in c['choices']) and \
                    len({frozenset(pred.get(x, ())) for x in c['choices']}) > 1:
                flags.add('dv_linked_split')
        else:
            origs = [origin_of[x] for x in c['choices'] if x in origin_of]
            if all(o in perm for o in origs):
                flags.add('con_all_permanent')
            else:
                flags.add('con_hierarchical')
    if not spec['sel']:
        flags.add('no_sel_choice')
    return sorted(flags)


EXOTIC = {'opt_is_permanent', 'opt_derives_origin', 'incompat_self', 'unreachable_part', 'choice_loop',
          'shared_option', 'opt_derived_by_origin'}


def is_exotic(flags) -> bool:
    return bool(set(flags) & EXOTIC)
