"""Monitors attached to the real classes from the harness: call taps (pre/post hooks on the real
methods, patched in place so internal calls pass through them too), live-object registry, mutation tap."""
import functools
import threading
import weakref

_lock = threading.Lock()
_patched = []


class Tap:
    """wrap cls.name; hooks: pre(self, args, kwargs), post(self, args, kwargs, result, exc)."""

    def __init__(self, cls, name, pre=None, post=None, counter=None):
        self.cls, self.name, self.pre, self.post = cls, name, pre, post
        self.calls = 0
        self.orig = cls.__dict__.get(name)
        if self.orig is None:
            raise AttributeError('%s.%s not defined on the class itself' % (cls.__name__, name))
        orig = self.orig
        is_static = isinstance(orig, staticmethod)
        is_cls = isinstance(orig, classmethod)
        func = orig.__func__ if (is_static or is_cls) else orig
        tap = self

        @functools.wraps(func)
        def wrapper(*args, **kwargs):
            tap.calls += 1
            if counter is not None:
                counter(tap.cls.__name__ + '.' + tap.name)
            if tap.pre is not None:
                tap.pre(args, kwargs)
            try:
                res = func(*args, **kwargs)
            except BaseException as e:
                if tap.post is not None:
                    tap.post(args, kwargs, None, e)
                raise
            if tap.post is not None:
                tap.post(args, kwargs, res, None)
            return res

        if is_static:
            wrapper = staticmethod(wrapper)
        elif is_cls:
            wrapper = classmethod(wrapper)
        setattr(cls, name, wrapper)
        _patched.append(self)

    def restore(self):
        setattr(self.cls, self.name, self.orig)


def restore_all():
    while _patched:
        _patched.pop().restore()


class Registry:
    """weak registry of every DSG object constructed while active, with its birth observation"""

    def __init__(self, observe, counter=None):
        self.observe = observe      # callable(dsg) -> observation (JSON-able)
        self.items = []             # (weakref, birth observation, serial)
        self.serial = 0
        self.active = False
        self.counter = counter
        self.mutations = []
        self._busy = False

    def install(self):
        from adsg_core.graph.adsg import DSG
        reg = self
        orig_init = DSG.__init__

        @functools.wraps(orig_init)
        def init(obj, *a, **kw):
            orig_init(obj, *a, **kw)
            if reg.active and not reg._busy:
                reg.pending.append(obj)
        self.pending = []
        DSG.__init__ = init
        self._orig_init = orig_init
        self._cls = DSG
        self.active = True

    def uninstall(self):
        self._cls.__init__ = self._orig_init
        self.active = False

    def settle(self):
        """register the objects created since the last quiescent point (observed now, at birth)"""
        self._busy = True
        try:
            new, self.pending = self.pending, []
            for obj in new:
                try:
                    ob = self.observe(obj)
                except Exception as e:  # noqa
                    ob = {'observe_error': repr(e)}
                self.serial += 1
                self.items.append((weakref.ref(obj), ob, self.serial))
        finally:
            self._busy = False

    def reobserve(self):
        """yield (serial, birth, now) for every live registered object whose observation changed.

        What an object reports may depend on which OTHER object was queried last (state on shared node objects), and
        a full observation of an object can itself repair such state before the deciding query is made.  Therefore
        (i) a pairwise probe runs first: for every ordered pair (Y, X) of live objects (capped), query Y's probe,
        then X's probe, and compare X's answer with its birth observation; (ii) the full observations are made in a
        rotating order (oldest first, newest first, interleaved)."""
        self._busy = True
        try:
            self._round = getattr(self, '_round', 0) + 1
            live = [(ref(), birth, serial) for ref, birth, serial in self.items]
            live = [t for t in live if t[0] is not None]
            probes = getattr(self, 'pair_probe', None)
            if probes is not None and not isinstance(probes, list):
                probes = [probes]
            for key, fn in (probes if len(live) > 1 else None) or []:
                sub = live[-6:] + live[:2] if len(live) > 8 else live
                flagged = set()
                for oy, _, sy in sub:
                    for ox, bx, sx in sub:
                        if ox is oy or sx in flagged or key not in bx:
                            continue
                        try:
                            fn(oy)
                            v = fn(ox)
                        except Exception as e:  # noqa
                            v = 'ERR:' + type(e).__name__
                        if self.counter:
                            self.counter('pair_probes')
                        if v != bx[key]:
                            flagged.add(sx)
                            yield sx, bx, dict(bx, **{key: v, 'after_query_of_object': sy})
            order = list(self.items)
            if self._round % 3 == 1:
                order.reverse()
            elif self._round % 3 == 2:
                order = order[::2] + order[1::2]
            for ref, birth, serial in order:
                obj = ref()
                if obj is None:
                    continue
                try:
                    now = self.observe(obj)
                except Exception as e:  # noqa
                    now = {'observe_error': repr(e)}
                if self.counter:
                    self.counter('reobservations')
                if now != birth:
                    yield serial, birth, now
        finally:
            self._busy = False


class MutationTap:
    """log attribute writes on shared node objects (explains an aliasing violation; does not decide it)"""

    def __init__(self, name_of):
        self.name_of = name_of
        self.log = []
        self.active = False

    def install(self):
        from adsg_core.graph.adsg_nodes import DSGNode
        tap = self

        def setattr_(obj, key, value):
            if tap.active and key in ('deg_list', 'deg_min', 'deg_max', 'repeated_allowed', 'option_id', 'decision_id',
                                      'assigned_value', 'perm_decision_link_key'):
                old = obj.__dict__.get(key, '<unset>')
                if old != value and old != '<unset>':
                    try:
                        nm = tap.name_of(obj)
                    except Exception:  # noqa
                        nm = '?'
                    tap.log.append((nm, key, repr(old)[:40], repr(value)[:40]))
                    if len(tap.log) > 200:
                        del tap.log[:100]
            object.__setattr__(obj, key, value)
        DSGNode.__setattr__ = setattr_
        self._cls = DSGNode
        self.active = True

    def uninstall(self):
        try:
            del self._cls.__setattr__
        except Exception:  # noqa
            pass
        self.active = False
