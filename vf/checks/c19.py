"""C19: the time limiter returns, raises or times out -- and leaves nothing running.

Histories are recorded by the harness at the call boundary and inside the limited function (one lock-protected
log, monotonic clock); schedules are perturbed with sys.setswitchinterval and with sys.monitoring LINE
callbacks that sleep inside run_timeout's race windows (source-free yield/delay injection)."""
import os
import sys
import time
import inspect
import hashlib
import threading
from .. import gen, spec as S, drive as D
from . import common

LOG_LOCK = threading.Lock()
LOG = []
TOOL = 3


def log(call_id, kind, **kw):
    with LOG_LOCK:
        LOG.append((time.monotonic(), call_id, threading.get_ident(), kind, kw))


class Inject:
    """sleep at chosen statement lines of run_timeout._inner_run (between the timed get, is_alive(), the
    asynchronous interrupt and join)"""

    def __init__(self):
        self.plan = {}
        self.hits = 0
        self.ok = False
        self.lines = {}
        try:
            import adsg_core.optimization.assign_enc.time_limiter as tl
            codes = [c for c in tl.run_timeout.__code__.co_consts if hasattr(c, 'co_name') and
                     c.co_name == '_inner_run']
            if not codes or not hasattr(sys, 'monitoring') or os.environ.get('VERIF_C19_NO_MONITORING'):
                return
            self.code = codes[0]
            src = inspect.getsource(tl).splitlines()
            for ln, text in enumerate(src, 1):
                for tag in ('is_alive', 'SetAsyncExc', 'join', 'raise TimeoutError', 'apply_async'):
                    if tag in text and ln >= self.code.co_firstlineno:
                        self.lines.setdefault(tag, ln)
            mon = sys.monitoring
            mon.use_tool_id(TOOL, 'vf-c19')
            mon.register_callback(TOOL, mon.events.LINE, self._cb)
            mon.set_local_events(TOOL, self.code, mon.events.LINE)
            self.ok = True
        except Exception:  # noqa
            self.ok = False

    def _cb(self, code, line):
        d = self.plan.get(line)
        if d is not None:
            self.hits += 1
            time.sleep(d)

    def set(self, **tags):
        self.plan = {self.lines[t]: d for t, d in tags.items() if t in self.lines}


class Boom(Exception):
    pass


def make_func(kind, call_id, dur, rnd):
    """the limited function for one call class; returns (callable, expected result or exception class)"""
    def ticks(total, swallow=0, after_swallow=.03):
        t_end = time.monotonic() + total
        swallowed = 0
        log(call_id, 'start')
        while True:
            try:
                while time.monotonic() < t_end:
                    log(call_id, 'tick')
                    x = 0
                    for i in range(200):
                        x += i
                break
            except BaseException as e:  # noqa
                log(call_id, 'exc_in_worker', type=type(e).__name__)
                if swallowed < swallow:
                    swallowed += 1
                    t_end = min(t_end, time.monotonic() + after_swallow)
                    continue
                raise
        log(call_id, 'end')
        return ('done', call_id)

    if kind == 'fast_return':
        def f():
            log(call_id, 'start')
            log(call_id, 'end')
            return ('done', call_id)
        return f, ('done', call_id)
    if kind == 'fast_raise':
        def f():
            log(call_id, 'start')
            raise Boom(call_id)
        return f, Boom
    if kind == 'raise_timeout_itself':
        def f():
            log(call_id, 'start')
            raise TimeoutError('own')
        return f, TimeoutError
    if kind in ('work', 'near_limit', 'blocked'):
        return (lambda: ticks(dur)), ('done', call_id)
    if kind == 'swallow_once':
        return (lambda: ticks(dur, swallow=1)), ('done', call_id)
    if kind == 'swallow_long':
        # swallows the interrupt once and keeps working for dur[1] seconds (several times the limit)
        return (lambda: ticks(dur[0], swallow=1, after_swallow=dur[1])), ('done', call_id)
    if kind == 'native_sleep':
        def f():
            log(call_id, 'start')
            try:
                time.sleep(dur)
            except BaseException as e:  # noqa
                log(call_id, 'exc_in_worker', type=type(e).__name__)
                raise
            log(call_id, 'end')
            return ('done', call_id)
        return f, ('done', call_id)
    if kind == 'nested':
        def f():
            from adsg_core.optimization.assign_enc.time_limiter import run_timeout
            log(call_id, 'start')
            try:
                r = run_timeout(dur[0], lambda: ticks(dur[1]))
            except TimeoutError:
                log(call_id, 'inner_timeout')
                r = ('inner_timeout', call_id)
            log(call_id, 'end')
            return r
        return f, None
    raise ValueError(kind)


def one_call(kind, call_id, limit, dur, col, rnd, baseline_threads, cfg):
    from adsg_core.optimization.assign_enc.time_limiter import run_timeout
    f, expect = make_func(kind, call_id, dur, rnd)
    if os.environ.get('VERIF_CRASH_DIR'):
        sys.stderr.write('CALL %s %s limit=%s dur=%s cfg=%s\n' % (call_id, kind, limit, dur, cfg))
        sys.stderr.flush()
    col.count('monitor_calls')
    col.count('calls_' + kind)
    t0 = time.monotonic()
    log(call_id, 'call', cls=kind, limit=limit)
    outcome, value = None, None
    stray = None
    try:
        try:
            value = run_timeout(limit, f)
            outcome = 'return'
        except TimeoutError as e:
            outcome = 'timeout'
            value = e
        except Boom as e:
            outcome = 'raise'
            value = e
        t1 = time.monotonic()
        log(call_id, 'returned', outcome=outcome)
        # bytecode-only grace window in the calling thread: a stray asynchronous exception would surface here
        t_g = time.monotonic() + .03
        x = 0
        while time.monotonic() < t_g:
            for i in range(500):
                x += i
    except BaseException as e:  # noqa  -- an exception the calling thread did not cause
        t1 = time.monotonic()
        stray = e
        outcome = 'stray:' + type(e).__name__
    elapsed = t1 - t0
    detail = {'kind': kind, 'limit': limit, 'dur': dur, 'elapsed': round(elapsed, 4), 'outcome': outcome, 'cfg': cfg}

    def viol(sym):
        with LOG_LOCK:
            hist = [(round(t - t0, 4), tid == threading.get_ident(), k, kw) for t, c, tid, k, kw in LOG
                    if c == call_id][:60]
        col.violation(sym, {'call': detail}, dict(detail, history=hist), [], where={'kind': kind})

    if stray is not None:
        viol('interrupt_received_by_calling_thread')
        return 'stray'
    # ---- outcome oracle per class ----
    if kind == 'fast_return':
        if outcome != 'return' or value != expect:
            viol('wrong_outcome_for_function_finishing_in_time')
    elif kind == 'fast_raise':
        if outcome != 'raise' or value.args != (call_id,):
            viol('own_exception_not_reraised')
    elif kind == 'raise_timeout_itself':
        if outcome != 'timeout':
            viol('own_exception_not_reraised')
    elif kind in ('blocked', 'native_sleep', 'swallow_once', 'swallow_long'):
        if outcome != 'timeout':
            viol('no_timeout_for_function_exceeding_limit')
    elif kind in ('near_limit', 'work'):
        if outcome == 'return' and value != expect:
            viol('wrong_result')
        if outcome not in ('return', 'timeout'):
            viol('wrong_outcome')
        if kind == 'work' and outcome != 'return':
            # function needs far less than the limit
            viol('wrong_outcome_for_function_finishing_in_time')
    elif kind == 'nested':
        if outcome == 'return' and value not in (('done', call_id), ('inner_timeout', call_id)):
            viol('wrong_result')
    if outcome == 'timeout' and kind != 'raise_timeout_itself' and elapsed < limit - 1e-4:
        viol('timeout_reported_before_limit_elapsed')
    # ---- nothing left running ----
    time.sleep(.05)
    if kind == 'native_sleep':
        time.sleep(max(0., t0 + dur + .08 - time.monotonic()))   # a worker that was abandoned wakes up by then
    if kind == 'swallow_long':
        time.sleep(max(0., t0 + limit + dur[1] + .08 - time.monotonic()))
    with LOG_LOCK:
        late = [(t, k) for t, c, tid, k, kw in LOG if c == call_id and tid != threading.get_ident() and
                t > t1 + .02 and k in ('tick', 'start', 'end', 'exc_in_worker')]
        seq = [(tid == threading.get_ident(), k, kw.get('type') or kw.get('outcome')) for t, c, tid, k, kw in LOG
               if c == call_id and k != 'tick']
        n_tick = sum(1 for t, c, tid, k, kw in LOG if c == call_id and k == 'tick')
    if late:
        detail['late_events'] = len(late)
        viol('worker_still_executing_after_return')
    extra = [t for t in threading.enumerate() if t not in baseline_threads and t.is_alive()]
    if extra:
        time.sleep(.25)
        extra = [t for t in threading.enumerate() if t not in baseline_threads and t.is_alive()]
        if extra:
            detail['threads'] = [t.name for t in extra]
            viol('thread_left_alive_after_return')
            baseline_threads.update(extra)
    # ---- the next call is unaffected ----
    try:
        r = run_timeout(5, lambda: 40 + 2)
        if r != 42:
            viol('later_call_affected')
    except BaseException as e:  # noqa
        detail['later'] = repr(e)
        viol('later_call_affected')
    inter = hashlib.sha1(repr((kind, seq, min(n_tick, 3))).encode()).hexdigest()[:12]
    return inter


def library_after_timeout(task, col):
    """The function the library itself runs under the limiter (EncoderSelector._get_n_mat): count_all_matrices on a
    cold on-disk cache, interrupted by the time limit; results of calls made afterwards (same generator, fresh
    generator, i.e. through whatever the interrupted call left on disk) must equal those of an undisturbed run."""
    import numpy as np
    from adsg_core.optimization.assign_enc.time_limiter import run_timeout
    import adsg_core.optimization.assign_enc.matrix as mx
    rnd = gen.rng_for('C19lib', task['seed'], task['shard'])
    for rep in range(task['hi']):
        ns, nt = rnd.choice([(4, 4), (4, 5), (5, 5)])
        col.evaluations += 1
        col.count('monitor_calls')
        col.count('monitor_library_calls')

        def settings():
            return mx.MatrixGenSettings([mx.Node([0, 1, 2]) for _ in range(ns)],
                                        [mx.Node([0, 1, 2], repeated_allowed=False) for _ in range(nt)])
        g = mx.AggregateAssignmentMatrixGenerator(settings())
        g.reset_agg_matrix_cache()
        slow_write = rep % 2 == 1
        real_pickle = mx.pickle
        if slow_write:
            # the limit expires while the limited call is WRITING its on-disk cache (what a loaded machine does by
            # chance): half of the bytes, then a pause longer than the limit, then the rest
            ns, nt = 3, 3
            g = mx.AggregateAssignmentMatrixGenerator(settings())
            g.reset_agg_matrix_cache()
            limit = .6

            class SlowPickle:
                def __getattr__(self, name):
                    return getattr(real_pickle, name)

                @staticmethod
                def dump(obj, fp, *a, **kw):
                    data = real_pickle.dumps(obj)
                    fp.write(data[:len(data) // 2])
                    fp.flush()
                    t_end = time.time() + 2.
                    while time.time() < t_end:     # (short sleeps: the asynchronous interrupt needs bytecode to land on)
                        time.sleep(.01)
                    fp.write(data[len(data) // 2:])
            mx.pickle = SlowPickle()
            col.count('library_slow_write_calls')
        else:
            limit = rnd.choice([.01, .03, .08])
        outcome = 'return'
        try:
            run_timeout(limit, g.count_all_matrices)
        except TimeoutError:
            outcome = 'timeout'
        except Exception as e:  # noqa
            outcome = 'exc:' + type(e).__name__
        finally:
            mx.pickle = real_pickle
        col.count('library_outcome_' + outcome)
        try:
            n_tup_after = sum(1 for _ in mx.AggregateAssignmentMatrixGenerator(settings()).iter_n_sources_targets())
            c_same = g.count_all_matrices()
            c_fresh = mx.AggregateAssignmentMatrixGenerator(settings()).count_all_matrices()
            g2 = mx.AggregateAssignmentMatrixGenerator(settings())
            g2.reset_agg_matrix_cache()
            n_tup_ref = sum(1 for _ in g2.iter_n_sources_targets(cache=False))
            g2.reset_agg_matrix_cache()
            c_ref = mx.AggregateAssignmentMatrixGenerator(settings()).count_all_matrices()
            g2.reset_agg_matrix_cache()
        except Exception as e:  # noqa
            info = D.exc_info(e)
            col.violation('later_call_affected', {'library': 'count_all_matrices', 'n_src': ns, 'n_tgt': nt},
                          {'exc': info, 'first_call': outcome, 'limit': limit}, [],
                          where={'kind': 'library', 'exc': info['type'], 'slow_write': slow_write})
            continue
        col.nontrivial.add('library|%s|%d|%s' % (outcome, ns * nt, slow_write))
        if (n_tup_after, c_same, c_fresh) != (n_tup_ref, c_ref, c_ref):
            col.violation('later_call_affected', {'library': 'count_all_matrices', 'n_src': ns, 'n_tgt': nt},
                          {'first_call': outcome, 'limit': limit, 'tuples_after': n_tup_after, 'tuples_reference': n_tup_ref,
                           'count_same_generator': int(c_same), 'count_fresh_generator': int(c_fresh),
                           'count_reference': int(c_ref)}, [], where={'kind': 'library', 'first_call': outcome})


def imputer_after_timeout(task, col):
    """A long imputation (search for the first / nearest valid vector) of a lazy assignment manager interrupted by the
    time limit -- what get_all_discrete_x under a time limit does to the processor's own managers; the manager outlives
    the call, and the same request made afterwards without a limit must give what an undisturbed manager gives."""
    import numpy as np
    from adsg_core.optimization.assign_enc.time_limiter import run_timeout
    import adsg_core.optimization.assign_enc.matrix as mx
    import adsg_core.optimization.assign_enc.encoder_registry as reg
    from adsg_core.optimization.assign_enc.assignment_manager import LazyAssignmentManager
    from adsg_core.optimization.assign_enc.lazy.encodings import LazyDirectMatrixEncoder
    rnd = gen.rng_for('C19imp', task['seed'], task['shard'])
    imps = [f for f in reg.LAZY_IMPUTERS if 'ConstraintViolation' not in type(f()).__name__]
    for imp in imps:
        n_src, n_tgt = 7, 3

        def manager():
            src = [mx.Node([0, 1], repeated_allowed=False) for _ in range(n_src - 1)] + \
                  [mx.Node([1], repeated_allowed=False)]
            tgt = [mx.Node([1], repeated_allowed=False) for _ in range(n_tgt)]
            return LazyAssignmentManager(mx.MatrixGenSettings(src=src, tgt=tgt), LazyDirectMatrixEncoder(imp()))
        name = type(imp()).__name__
        col.evaluations += 1
        try:
            m_ref = manager()
            x_bad = [1] * len(m_ref.design_vars)
            t0 = time.time()
            x_ref, _a, mat_ref = m_ref.get_matrix(list(x_bad))
            t_ref = time.time() - t0
        except Exception:  # noqa  (decoding itself is C10's matter)
            col.count('imputer_reference_failed_' + name)
            continue
        if t_ref < .25:
            col.count('imputer_search_too_fast_to_interrupt_' + name)
            continue
        limit = min(.4, .2 * t_ref)
        m2 = manager()
        col.count('monitor_calls')
        col.count('monitor_imputer_calls')
        outcome = 'return'
        try:
            run_timeout(limit, m2.get_matrix, list(x_bad))
        except TimeoutError:
            outcome = 'timeout'
        except Exception as e:  # noqa
            outcome = 'exc:' + type(e).__name__
        col.count('imputer_outcome_%s_%s' % (name, outcome))
        spec = {'library': 'LazyAssignmentManager.get_matrix', 'imputer': name, 'n_src': n_src, 'n_tgt': n_tgt}
        try:
            x_after, _a2, mat_after = m2.get_matrix(list(x_bad))
        except Exception as e:  # noqa
            info = D.exc_info(e)
            col.violation('later_call_affected', spec, {'exc': info, 'first_call': outcome, 'limit': limit}, [],
                          where={'kind': 'imputer', 'exc': info['type']})
            continue
        col.nontrivial.add('imputer|%s|%s' % (name, outcome))
        same = [int(v) for v in x_after] == [int(v) for v in x_ref] and np.array(mat_after).shape == np.array(mat_ref).shape \
            and bool(np.all(np.array(mat_after) == np.array(mat_ref)))
        if not same:
            col.violation('later_call_affected', spec,
                          {'first_call': outcome, 'limit': limit, 'reference_vector': [int(v) for v in x_ref],
                           'vector_after': [int(v) for v in x_after],
                           'matrix_shape_after': list(np.array(mat_after).shape),
                           'matrix_shape_reference': list(np.array(mat_ref).shape)}, [],
                          where={'kind': 'imputer', 'first_call': outcome})


def interrupted_accessors(task, col):
    """The time limit expires INSIDE a memoising accessor of an object that outlives the limited call (the existence
    patterns belong to the user's settings and are handed to every candidate encoder): each statement of the accessor
    is slowed down through sys.monitoring so that the interrupt lands in the middle of it; afterwards the same object
    must answer like an equal object that never saw a timeout."""
    import numpy as np
    from adsg_core.optimization.assign_enc.time_limiter import run_timeout
    import adsg_core.optimization.assign_enc.matrix as mx
    if not hasattr(sys, 'monitoring') or os.environ.get('VERIF_C19_NO_MONITORING'):
        col.count('accessor_injection_unavailable')
        return
    mon = sys.monitoring
    tool = 4
    try:
        mon.use_tool_id(tool, 'vf-c19-acc')
    except Exception:  # noqa
        col.count('accessor_injection_unavailable')
        return
    slow = {'code': None}

    def cb(code, line):
        if code is slow['code']:
            time.sleep(.004)
    mon.register_callback(tool, mon.events.LINE, cb)
    n = 8

    def pattern():
        return mx.NodeExistence(src_exists=[True] * 5 + [False] * 3, tgt_exists=[True] * 6 + [False] * 2)
    targets = [('src_exists_mask', (n,)), ('tgt_exists_mask', (n,)), ('none_exists', (n, n))]
    try:
        for name, args in targets:
            fn = getattr(mx.NodeExistence, name, None)
            if fn is None:
                continue
            code = fn.__code__ if hasattr(fn, '__code__') else getattr(getattr(fn, 'fget', None), '__code__', None)
            if code is None:
                continue
            for limit in (.006, .015, .03):
                col.evaluations += 1
                col.count('monitor_calls')
                col.count('monitor_interrupted_accessor_calls')
                obj = pattern()
                slow['code'] = code
                mon.set_local_events(tool, code, mon.events.LINE)
                outcome = 'return'
                try:
                    run_timeout(limit, lambda: getattr(obj, name)(*args))
                except TimeoutError:
                    outcome = 'timeout'
                except Exception as e:  # noqa
                    outcome = 'exc:' + type(e).__name__
                finally:
                    mon.set_local_events(tool, code, 0)
                    slow['code'] = None
                col.count('accessor_outcome_' + outcome)
                col.nontrivial.add('accessor|%s|%s' % (name, outcome))
                try:
                    after = [np.asarray(getattr(obj, nm_)(*a_)).tolist() for nm_, a_ in targets if hasattr(obj, nm_)]
                    ref_obj = pattern()
                    want = [np.asarray(getattr(ref_obj, nm_)(*a_)).tolist() for nm_, a_ in targets if hasattr(ref_obj, nm_)]
                except Exception as e:  # noqa
                    info = D.exc_info(e)
                    col.violation('later_call_affected', {'accessor': name}, {'exc': info, 'first_call': outcome,
                                                                              'limit': limit}, [],
                                  where={'kind': 'accessor', 'exc': info['type']})
                    continue
                if after != want:
                    col.violation('later_call_affected', {'accessor': name},
                                  {'first_call': outcome, 'limit': limit, 'after_timeout': after, 'undisturbed': want}, [],
                                  where={'kind': 'accessor', 'first_call': outcome})
    finally:
        mon.register_callback(tool, mon.events.LINE, None)
        try:
            mon.free_tool_id(tool)
        except Exception:  # noqa
            pass


def worker(task, col):
    import adsg_core.optimization.assign_enc.time_limiter  # noqa
    if task.get('only') == 'library':
        library_after_timeout(task, col)
        if task.get('shard', 0) % 2 == 0:
            common.guard(col, interrupted_accessors, task, col)
        else:
            common.guard(col, imputer_after_timeout, task, col)
        return
    rnd = gen.rng_for('C19', task['seed'], task['shard'])
    sw = task.get('switch')
    if sw:
        sys.setswitchinterval(sw)
    inj = Inject()
    col.count('injection_available', 1 if inj.ok else 0)
    baseline = set(threading.enumerate())
    interleavings = set()
    kinds = ['fast_return', 'fast_raise', 'raise_timeout_itself', 'work', 'near_limit', 'near_limit', 'near_limit',
             'blocked', 'swallow_once', 'native_sleep', 'swallow_long']
    if task.get('only') == 'nested':
        # nested calls run in their own processes: the leaked inner worker (KF-TL-NESTED) has been seen to crash the
        # interpreter in run_timeout's gc.collect(); isolating them keeps that from taking other observations down
        kinds = ['nested', 'nested', 'fast_return', 'nested', 'work']
    n = task['hi'] - task['lo']
    if task.get('only') == 'nested' and task.get('witness'):
        # fixed witness of known finding KF-TL-NESTED: the outer limit expires while the outer worker is inside a
        # nested run_timeout whose own limit has not expired yet
        for rep in range(3):
            col.evaluations += 1
            inj.set()
            one_call('nested', 'w-%d' % rep, .02, (.03, .2), col, rnd, baseline, {'switch': sw, 'inject': None,
                                                                                   'witness': True})
            with LOG_LOCK:
                del LOG[:]
    for i in range(n):
        call_id = '%d-%d' % (task['shard'], i)
        kind = kinds[i % len(kinds)] if task.get('mode') != 'back_to_back' else rnd.choice(kinds[:8])
        limit = rnd.choice([.02, .04, .06])
        cfg = {'switch': sw, 'inject': None}
        if inj.ok and task.get('inject') and rnd.random() < .6:
            plan = rnd.choice([{'is_alive': .02}, {'SetAsyncExc': .02}, {'join': .01}, {'is_alive': .005,
                                                                                       'SetAsyncExc': .005}])
            inj.set(**plan)
            cfg['inject'] = plan
        else:
            inj.set()
        if kind in ('fast_return', 'fast_raise', 'raise_timeout_itself'):
            limit, dur = 5, 0     # "finishes in time" must not depend on the load of the machine
        elif kind == 'work':
            limit, dur = 5, .01
        elif kind == 'near_limit':
            dur = limit * rnd.choice([.5, .8, .95, 1.0, 1.05, 1.2, 1.5])
        elif kind == 'blocked':
            dur = 30
        elif kind == 'swallow_once':
            dur = 30
        elif kind == 'native_sleep':
            dur = limit * rnd.choice([1.5, 3, 4]) + .12
        elif kind == 'swallow_long':
            dur = (30, limit * rnd.choice([2.5, 4]) + .05)
        elif kind == 'nested':
            dur = rnd.choice([(.03, .2), (.2, .02), (.05, .05)])
            limit = rnd.choice([.02, .1, .3])
        else:
            dur = 0
        col.evaluations += 1
        r = one_call(kind, call_id, limit, dur, col, rnd, baseline, cfg)
        interleavings.add(r)
        col.nontrivial.add('%s|%s' % (kind, r))
        with LOG_LOCK:
            if len(col.samples) < 2 and kind in ('near_limit', 'swallow_once', 'swallow_long'):
                col.sample({'call': {'kind': kind, 'limit': limit, 'dur': dur, 'cfg': cfg},
                            'history': [(k, kw) for t, c, tid, k, kw in LOG if c == call_id and k != 'tick'][:12]})
            del LOG[:]
    inj.set()
    col.count('injection_hits', inj.hits)
    col.count('distinct_interleavings_in_shard', len(interleavings))
    with LOG_LOCK:
        del LOG[:]


def main(run):
    if run.replay:
        rp = common.load_replay(run.replay)
        run.map([{'shard': 0, 'lo': 0, 'hi': 44, 'inject': True, 'switch': 5e-6}])
    else:
        per = 44 if run.tier == 'quick' else 330
        tasks = []
        sid = 0
        for sw in (None, 5e-6, 5e-3):
            for injm in (False, True):
                for rep in range(2 if run.tier == 'quick' else 4):
                    tasks.append({'shard': sid, 'lo': 0, 'hi': per, 'switch': sw, 'inject': injm})
                    sid += 1
        tasks.append({'shard': sid, 'lo': 0, 'hi': per * 2, 'switch': 5e-6, 'inject': False, 'mode': 'back_to_back'})
        sid += 1
        n_nested = 4 if run.tier == 'quick' else 12
        for j in range(n_nested):
            tasks.append({'shard': sid, 'lo': 0, 'hi': 12 if run.tier == 'quick' else 40, 'switch': [None, 5e-6, 5e-3][j % 3],
                          'inject': j % 2 == 1, 'only': 'nested', 'witness': j == 0})
            sid += 1
        for j in range(2 if run.tier == 'quick' else 6):
            tasks.append({'shard': sid, 'lo': 0, 'hi': 3 if run.tier == 'quick' else 8, 'only': 'library'})
            sid += 1
        res = run.map(tasks, timeout=1700, extra_env={} if os.environ.get('VERIF_C19_NO_DEV') else {'PYTHONDEVMODE': '1'})
        # a crashed worker process is an observation, not a harness failure
        crashed = [(t, d) for t, r, d in zip(tasks, res, run.diag + [''] * len(tasks)) if r is None]
        viols = []
        for t, r in zip(tasks, res):
            if r is None:
                kind = 'nested' if t.get('only') == 'nested' else 'other'
                viols.append({'symptom': 'interpreter_crash_in_worker_process', 'spec': {'task': {k: v for k, v in t.items()
                                                                                                  if not k.startswith('_')}},
                              'flags': [], 'where': {'kind': kind},
                              'detail': {'diagnostic': '; '.join(run.diag)[-800:]}})
        if viols:
            n_nested_crash = sum(1 for v in viols if v['where']['kind'] == 'nested')
            run.n_failed_tasks -= n_nested_crash     # judged as violations (known finding), not as lost tasks
            run.results.append({'evaluations': 0, 'violations': viols, 'counters': {}, 'nontrivial': []})
    run.finish('calls of run_timeout over classes fast_return/fast_raise/raise_timeout_itself/work/near_limit '
               '(duration 0.5..1.5 x limit)/blocked/swallow_once/native_sleep/swallow_long/nested, back-to-back runs, '
               'and the library\'s own limited workload (count_all_matrices on a cold cache, then the same queries '
               'undisturbed), under '
               'switch intervals {default, 5e-6, 5e-3} with and without sys.monitoring sleeps injected between the '
               'timed get, is_alive(), the asynchronous interrupt and join; a case is (class, interleaving) where '
               'interleaving = hash of the sequence of events of the calling and worker thread; all are non-trivial',
               min_nontrivial=8, deciding=['monitor_calls'],
               assumptions=['bounded-time reading of "leaves nothing running": no worker event later than 20 ms after '
                            'return, no extra live thread 50-300 ms after return',
                            'a function that swallows every interrupt forever is outside the workload (the call '
                            'would never return; that is a hang, reported as inconclusive by the watchdog)'])
