from .selwalk import worker, main  # noqa
