"""C16: design-variable nodes receive in-range values exactly when they exist."""
import math
from .. import gen, spec as S, build as B, observe as O, refmodel as R, drive as D, monitor as M
from . import common

PROFILES = [
    ('perm', .2, dict(p_incompat=.2, n_dv=(1, 3), p_dv_cond=0., n_steps=(2, 6))),
    ('cond', .45, dict(p_incompat=.3, n_dv=(1, 3), p_dv_cond=.8, p_dv_dup_label=.35, n_steps=(3, 9))),
    ('linked', .17, dict(p_incompat=.2, n_dv=(2, 3), p_dv_cond=.6, p_dv_link=1., n_steps=(3, 8))),
    ('linked2', .08, dict(p_incompat=.2, n_dv=(4, 5), p_dv_cond=.4, p_dv_link=1., p_dv_link2=1., n_steps=(3, 8))),
    ('conn', .1, dict(p_incompat=.1, n_dv=(1, 2), n_conn=(1, 1), n_steps=(2, 5), max_sel=2, max_opts=3)),
]
HOSTILE_CONT = [lambda lo, hi: lo, lambda lo, hi: hi, lambda lo, hi: lo - 1e6, lambda lo, hi: hi + 1e6,
                lambda lo, hi: lo - 1e-9, lambda lo, hi: hi + 1e-9, lambda lo, hi: (lo + hi) / 2,
                lambda lo, hi: lo + .123 * (hi - lo)]
HOSTILE_DISC = [lambda n: 0, lambda n: n - 1, lambda n: n, lambda n: -1, lambda n: 10 ** 6, lambda n: -10 ** 6,
                lambda n: n - 1 + .5, lambda n: .7, lambda n: max(0, n - 2)]


def case_spec(seed, i):
    rnd = gen.rng_for('C16', seed, i)
    r = rnd.random()
    acc = 0
    for name, w, kw in PROFILES:
        acc += w
        if r < acc:
            break
    return name, gen.gen_spec(rnd, **kw)


def clamp_ok(node, given, stored):
    """stored is given clamped to the domain (for discrete: an integer neighbour of the input, clamped)"""
    if 'options' in node:
        n = len(node['options'])
        if float(stored) != int(stored) or not (0 <= int(stored) <= n - 1):
            return False
        cands = {min(max(int(math.floor(given)), 0), n - 1), min(max(int(math.ceil(given)), 0), n - 1),
                 min(max(int(given), 0), n - 1)}
        return int(stored) in cands
    lo, hi = node['bounds']
    want = min(max(given, lo), hi)
    return abs(float(stored) - want) <= 1e-9 * max(1., abs(want))


def in_domain(node, v):
    if 'options' in node:
        return float(v) == int(v) and 0 <= int(v) < len(node['options'])
    return node['bounds'][0] <= v <= node['bounds'][1]


def check_case(sp, col, shard, seed_parts):
    from adsg_core.optimization.graph_processor import GraphProcessor
    from adsg_core.optimization.hierarchy.registry import SelChoiceEncoderType
    import adsg_core.graph.adsg_nodes as an
    col.evaluations += 1
    col.count('cases_' + shard)
    sp = S.normalize(sp)
    flags = S.classify(sp)
    model = R.Model(sp)
    nm = model.nodes
    rnd = gen.rng_for('C16v', *seed_parts)
    try:
        archs = model.architectures(limit=5000)
        if not archs:
            col.count('skipped_no_architecture')
            return
    except OverflowError:
        return
    links = [sorted(c['choices']) for c in sp['constraints'] if all(x in nm for x in c['choices'])]
    follower_of = {}
    for grp in links:
        for f in grp[1:]:
            follower_of[f] = grp[0]
    did = False
    for enc in ('COMPLETE', 'FAST'):
        b = B.build(sp)
        if b.dsg is None:
            return
        # a nominal value stored on the design space graph itself before the processor is built (half of the cases)
        preset = {}
        if rnd.random() < .5:
            for n_ in sp['nodes']:
                if n_['kind'] == 'dv' and b.node[n_['id']] in b.dsg.graph.nodes and n_['id'] not in follower_of:
                    v_ = 0 if 'options' in n_ else n_['bounds'][0]
                    try:
                        b.dsg.set_des_var_value(b.node[n_['id']], v_)
                        preset[n_['id']] = v_
                    except Exception:  # noqa
                        pass
                    break
        base_before = O.instance(b.dsg, b)['dv']
        try:
            gp = GraphProcessor(b.dsg, encoder_type=getattr(SelChoiceEncoderType, enc))
            # a third of the processors get one selection variable fixed before anything else is asked of them
            if rnd.random() < .35:
                cand = [dv for dv in gp.all_des_vars if isinstance(dv.node, an.SelectionChoiceNode)]
                # one or two of them, in any order of their positions; only to values some reference architecture takes
                # TOGETHER (a fix that empties the space is C15's matter)
                rnd.shuffle(cand)
                pool = list(archs)
                for dv_f in cand[:rnd.choice((1, 2, 2))]:
                    key = b.name(dv_f.node)[2:]   # 'S:<key>'
                    taken = {a['assign'].get(key) for a in pool}
                    vals = [k for k, o in enumerate(dv_f.options) if b.name(o) in taken]
                    if not vals:
                        break
                    v_f = rnd.choice(vals)
                    try:
                        gp.fix_des_var(dv_f, v_f)
                        col.count('monitor_fixed_before_first_decode')
                    except Exception:  # noqa  (judged by C15)
                        break
                    pool = [a for a in pool if a['assign'].get(key) == b.name(dv_f.options[v_f])]
            dvs = gp.des_vars
        except Exception:  # noqa
            col.count('skipped_construct_failed')
            continue
        dv_idx = [i for i, dv in enumerate(dvs) if isinstance(dv.node, an.DesignVariableNode)]
        if not dv_idx:
            continue
        handed_out = []   # (instance, what it stored when it was returned)
        for trial in range(14):
            x, given = [], {}
            for i, dv in enumerate(dvs):
                if i in dv_idx:
                    node = nm[b.name(dv.node)]
                    if dv.is_discrete:
                        v = rnd.choice(HOSTILE_DISC)(dv.n_opts)
                    else:
                        v = rnd.choice(HOSTILE_CONT)(*dv.bounds)
                    given[b.name(dv.node)] = v
                    x.append(v)
                else:
                    x.append(rnd.randrange(dv.n_opts) if dv.is_discrete else dv.bounds[0])
            col.count('monitor_decode_evaluations')
            try:
                g, x1, a1 = gp.get_graph(x)
            except Exception as e:  # noqa
                info = D.exc_info(e)
                col.violation('decode_exception_on_out_of_range_dv', sp, {'x': x, 'exc': info, 'enc': enc}, flags,
                              where={'exc': info['type'], 'site': info['site'], 'enc': enc})
                break
            did = True
            obs = O.instance(g, b)
            # instances decoded earlier (and the design space graph) keep holding the values of their own vector
            for k_, (g_old, dv_old) in enumerate(handed_out):
                col.count('monitor_earlier_instance_rechecks')
                now_ = O.instance(g_old, b)['dv']
                if now_ != dv_old:
                    col.violation('earlier_instance_values_changed', sp,
                                  {'instance_no': k_, 'held': dv_old, 'holds_now': now_, 'after_decoding': x, 'enc': enc,
                                   'preset': preset}, flags, where={'enc': enc, 'preset': bool(preset)})
                    handed_out = []
                    break
            if O.instance(b.dsg, b)['dv'] != base_before:
                col.violation('design_space_graph_values_changed', sp,
                              {'before': base_before, 'now': O.instance(b.dsg, b)['dv'], 'after_decoding': x, 'enc': enc},
                              flags, where={'enc': enc, 'preset': bool(preset)})
                base_before = O.instance(b.dsg, b)['dv']
            handed_out.append((g, obs['dv']))
            present = set(obs['nodes'])
            stored = dict(obs['dv'])
            x1 = D.to_list(x1)
            bad = None
            for i in dv_idx:
                dv = dvs[i]
                name = b.name(dv.node)
                node = nm[name]
                exists = name in present
                if exists != bool(a1[i]):
                    bad = ('dv_activeness_differs_from_existence', {'node': name, 'exists': exists, 'active': bool(a1[i])})
                elif exists:
                    if name not in stored:
                        bad = ('existing_dv_node_without_value', {'node': name})
                    elif not in_domain(node, stored[name]):
                        bad = ('stored_value_outside_domain', {'node': name, 'stored': stored[name], 'given': given[name]})
                    elif not clamp_ok(node, given[name], stored[name]):
                        bad = ('stored_value_is_not_the_clamped_input', {'node': name, 'stored': stored[name],
                                                                         'given': given[name]})
                    elif abs(float(x1[i]) - float(stored[name])) > 1e-9:
                        bad = ('reported_value_differs_from_stored', {'node': name, 'stored': stored[name],
                                                                      'reported': x1[i]})
                else:
                    canon_v = 0 if dv.is_discrete else (dv.bounds[0] + dv.bounds[1]) / 2
                    if abs(float(x1[i]) - canon_v) > 1e-9:
                        bad = ('absent_dv_not_canonical', {'node': name, 'reported': x1[i]})
                if bad:
                    break
            if bad is None:
                # every existing DV node (also linked followers) has an in-domain value
                for name in present:
                    node = nm.get(name)
                    if node is not None and node['kind'] == 'dv':
                        if name not in stored:
                            bad = ('existing_dv_node_without_value', {'node': name, 'linked_follower': name in follower_of})
                        elif not in_domain(node, stored[name]):
                            bad = ('stored_value_outside_domain', {'node': name, 'stored': stored[name]})
                        elif name in follower_of and follower_of[name] in stored:
                            lead = follower_of[name]
                            if 'options' in node:
                                same = int(stored[name]) == int(stored[lead])
                            else:
                                (l0, h0), (l1, h1) = nm[lead]['bounds'], node['bounds']
                                same = abs((stored[lead] - l0) / (h0 - l0) - (stored[name] - l1) / (h1 - l1)) < 1e-9
                            if not same:
                                bad = ('linked_values_differ', {'leader': lead, 'follower': name,
                                                                'values': [stored[lead], stored[name]]})
                    if bad:
                        break
            if bad is not None:
                col.violation(bad[0], sp, dict(bad[1], x=x, x_corrected=x1, active=[bool(v) for v in a1], enc=enc),
                              flags, where={'enc': enc, 'linked_follower': bool(bad[1].get('linked_follower'))})
                break
    # setting values directly on a graph clamps the same way and never stores anything outside the domain
    b = B.build(sp)
    if b.dsg is not None:
        g = b.dsg.copy()
        for n in sp['nodes']:
            if n['kind'] != 'dv':
                continue
            node = b.node[n['id']]
            if node not in g.graph.nodes:
                continue
            for f in (HOSTILE_DISC if 'options' in n else HOSTILE_CONT):
                v = f(len(n['options'])) if 'options' in n else f(*n['bounds'])
                col.count('monitor_set_value_evaluations')
                try:
                    g.set_des_var_value(node, v)
                except Exception as e:  # noqa
                    info = D.exc_info(e)
                    col.violation('set_value_exception', sp, {'node': n['id'], 'value': v, 'exc': info}, flags,
                                  where={'exc': info['type'], 'site': info['site']})
                    break
                st = g.des_var_value(node)
                if not in_domain(n, st) or not clamp_ok(n, v, st):
                    col.violation('direct_set_not_clamped', sp, {'node': n['id'], 'given': v, 'stored': st}, flags)
                    break
                for other, ov in g.des_var_values.items():
                    on = nm[b.name(other)]
                    if not in_domain(on, ov):
                        col.violation('stored_value_outside_domain', sp, {'node': b.name(other), 'stored': ov,
                                                                          'after_setting': n['id'], 'given': v},
                                      flags, where={'path': 'direct_set'})
    if did:
        col.nontrivial.add(S.digest(sp))
        if len(col.samples) < 2:
            col.sample({'spec': common.short(sp), 'dv_nodes': [n for n in sp['nodes'] if n['kind'] == 'dv']})


def worker(task, col):
    from adsg_core.graph.adsg import DSG
    M.Tap(DSG, 'set_des_var_value', counter=col.count)
    if task.get('replay'):
        v = task['replay']['violation']
        common.guard(col, check_case, v['spec'], col, 'replay', ['replay'])
        return
    if task['shard'] == 0:
        for c in common.corpus('C16'):
            common.guard(col, check_case, c['spec'], col, 'corpus', ['corpus', c['file']])
    for i in range(task['lo'], task['hi']):
        name, sp = case_spec(task['seed'], i)
        common.guard(col, check_case, sp, col, name, ['C16', task['seed'], i])


def main(run):
    if run.replay:
        run.map([{'replay': common.load_replay(run.replay), 'shard': 0}])
    else:
        run.map(common.shard_tasks(320 if run.tier == 'quick' else 8000, run.jobs), timeout=3400)
    run.finish('generated DSGs with continuous and discrete DV nodes under permanent and conditional nodes, with and '
               'without LINKED constraints; vectors with DV entries inside, on and far outside the domain (negative '
               'indices, 1e6, non-integers); both encoders; direct set_des_var_value with the same hostile values; '
               'non-trivial = at least one decode with a DV variable executed',
               min_nontrivial=20, deciding=['monitor_decode_evaluations', 'DSG.set_des_var_value'],
               assumptions=['a non-integer value for a discrete variable may be rounded either way before clamping'])
