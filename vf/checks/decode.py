"""C01 / C03 / C04 / C07 / C14: decode workload on GraphProcessor with both selection-choice encoders.

One workload, one set of monitors; each property's check reports only the violations of its own monitors."""
import math
import itertools
import numpy as np
from .. import gen, spec as S, build as B, observe as O, refmodel as R, drive as D, monitor as M
from . import common

_X = dict(p_opt_existing=.4, p_multi_choice=.3)
# (name, weight, generator options)
PROFILES = [
    ('sel', .18, dict(p_incompat=.4)),
    ('sel_con', .12, dict(p_incompat=.3, p_constraint=1.0, n_steps=(5, 12))),
    ('sel_dv', .08, dict(p_incompat=.3, n_dv=(1, 3), p_dv_link=.4)),
    ('sel_dv_opt', .04, dict(p_incompat=.3, n_dv=(2, 4), p_dv_option=.5, p_dv_cond=.8)),
    ('conn', .2, dict(p_incompat=.25, n_conn=(1, 1), n_steps=(2, 7), max_sel=3, max_opts=3)),
    ('conn2', .05, dict(p_incompat=.2, n_conn=(2, 2), n_steps=(2, 6), max_sel=2, max_opts=3, p_grp=.2)),
    ('conn3', .04, dict(p_incompat=.1, n_conn=(3, 3), n_steps=(1, 3), max_sel=1, max_opts=2, p_grp=0., p_excl=.1,
                        p_conn_cond=.15, max_side=2, max_side_total=3)),
    ('conn_dv', .06, dict(p_incompat=.2, n_conn=(1, 1), n_dv=(1, 2), n_steps=(2, 6), max_sel=3, max_opts=3)),
    ('dup_id', .04, dict(p_incompat=.3, p_dup_id=.6, n_dv=(0, 2))),
    ('shared_option', .06, dict(allow=('shared_option',), p_incompat=.3, p_constraint=.3, **_X)),
    ('opt_derived_by_origin', .03, dict(allow=('opt_derived_by_origin',), p_incompat=.3, **_X)),
    ('opt_is_permanent', .03, dict(allow=('opt_is_permanent', 'opt_derived_by_origin'), p_incompat=.3, **_X)),
    ('choice_loop', .03, dict(allow=('choice_loop', 'opt_derives_origin'), p_incompat=.3, p_cycle=.3, **_X)),
    ('incompat_self', .02, dict(allow=('incompat_self',), p_incompat=1., n_incompat=(1, 3))),
    ('soup', .02, dict(exotic=True, p_incompat=.6, p_cycle=.25, n_dv=(0, 1), **_X)),
]

OWN = {
    'C01': {'construct_exception', 'decode_exception', 'not_final', 'not_feasible', 'not_an_admissible_architecture',
            'dv_node_without_value', 'unexpected_success_on_empty_space'},
    'C03': {'corrected_out_of_range', 'not_idempotent', 'vector_instance_mismatch_selection',
            'vector_instance_mismatch_connection', 'vector_instance_mismatch_dv', 'not_injective',
            'corrected_not_integer'},
    'C04': {'duplicate_rows', 'row_not_fixed_point', 'row_activeness_differs', 'enumeration_missing_architectures',
            'enumeration_extra_architectures', 'n_valid_mismatch', 'n_declared_mismatch', 'imp_ratio_mismatch',
            'enumeration_exception', 'row_decodes_to_duplicate_architecture', 'statistics_mismatch'},
    'C07': {'active_but_absent', 'inactive_not_canonical', 'unconditional_var_inactive', 'activeness_path_disagree',
            'create_false_differs'},
    'C14': {'fast_construct_exception', 'fast_decode_exception', 'fast_not_an_admissible_architecture',
            'fast_missing_architectures', 'fast_valid_vector_changed', 'fast_differs_from_complete',
            'fast_not_final', 'fast_not_feasible'},
}


def case_spec(prop, seed, i):
    import os
    rnd = gen.rng_for('decode', prop, seed, i)
    r = rnd.random()
    acc = 0
    profiles = PROFILES
    only = os.environ.get('VERIF_ONLY')
    if only:   # triage aid: restrict to some generator classes
        profiles = [p for p in PROFILES if p[0] in only.split(',')]
        tot = sum(p[1] for p in profiles)
        profiles = [(p[0], p[1] / tot, p[2]) for p in profiles]
    if not only and prop in ('C14', 'C01', 'C03') and r > .93:
        # structured constraint placements (permanent / hierarchical / exclusive, ids in and against hierarchy order)
        from . import c13
        sp = c13.make_spec(rnd.choice(c13.TYPES), rnd.choice((2, 3)), rnd.choice((2, 3)),
                           rnd.choice(('perm', 'hier', 'hier_all', 'excl')), rnd.random() < .5, False)
        return 'con_struct', sp
    if not only and .9 < r <= .93:
        return 'necessary_conflict', gen.gen_necessary_conflict(rnd)
    if not only and .86 < r <= .9:
        return 'group_conditional', gen.gen_group_conditional(rnd)
    for name, w, kw in profiles:
        acc += w
        if r < acc:
            break
    if name == 'conn3' and rnd.random() < .5:
        # (the generic three-connection-choice class is often infeasible as a whole; half of its share goes to a shape
        # in which every combination of the three choices is an architecture)
        return 'conn3_simple', gen.gen_conn3_simple(rnd)
    return name, gen.gen_spec(rnd, **kw)


def sibling_spec(sp, rnd):
    """A second design space graph that differs from `sp` only in a detail of one connection choice -- WHICH pair is
    excluded (moved to a look-alike connector with the same degrees), or whether one connector accepts parallel
    connections.  Decoded in the same process and cache directory right after `sp`: anything keyed too coarsely
    (on-disk matrix / selection caches, in-memory memos) serves the sibling the answers of the first graph."""
    import copy
    sp2 = copy.deepcopy(sp)
    nodes = {n['id']: n for n in sp2['nodes']}
    def plain(x):
        return isinstance(x, str) and nodes.get(x, {}).get('kind') == 'conn'
    cands = [k for k in sp2.get('conn', []) if sum(plain(x) for x in k['src'] + k['tgt']) >= 2]
    if not cands:
        return None
    k = rnd.choice(cands)
    ex = [p for p in k.get('exclude', []) if plain(p[0]) and plain(p[1])]
    if ex and rnd.random() < .6:
        s_, t_ = rnd.choice(ex)
        side, fixed, moved = ('tgt', s_, t_) if rnd.random() < .5 else ('src', t_, s_)
        others = [x for x in k[side] if plain(x) and x != moved and
                  ([fixed, x] if side == 'tgt' else [x, fixed]) not in k['exclude']]
        if others:
            # (the look-alike has to be there in BOTH graphs: first the graph with the look-alike and the exclusion
            # where it was, then the same graph with the exclusion moved to the look-alike)
            o = rnd.choice(others)
            nodes[o]['deg'], nodes[o]['rep'] = copy.deepcopy(nodes[moved]['deg']), nodes[moved]['rep']
            sp3 = copy.deepcopy(sp2)
            k3 = [c for c in sp3['conn'] if c['id'] == k['id']][0]
            k3['exclude'].remove([s_, t_])
            k3['exclude'].append([fixed, o] if side == 'tgt' else [o, fixed])
            return [sp2, sp3]
    x = rnd.choice([x for x in k['src'] + k['tgt'] if plain(x)])
    nodes[x]['rep'] = not nodes[x]['rep']
    return [sp2]


def dv_followers(model):
    f = set()
    for c in model.spec['constraints']:
        if all(x in model.nodes for x in c['choices']):
            f.update(sorted(c['choices'])[1:])
    return f


def obs_key(obs, model, with_disc_dv=True):
    """architecture identity incl. values of discrete, non-follower DV nodes"""
    d = []
    if with_disc_dv:
        rep = model.dv_rep()
        for name, v in obs['dv']:
            n = model.nodes.get(name)
            if n is not None and 'options' in n and (rep[name], int(v)) not in d:
                d.append((rep[name], int(v)))
    e = [x for x in obs['edges'] if x[2] in ('D', 'C') and not x[0].startswith(('S:', 'K:', 'SEL<'))
         and not x[1].startswith(('S:', 'K:', 'SEL<'))]
    return S.canon({'n': obs['nodes'], 'e': e, 'dv': sorted(d)})


def ref_keys(case, with_dv):
    out = {}
    for a in case.archs:
        k = O.ref_arch_key(case.model, a, dv_values=list(a['dv'].items()) if with_dv else None)
        out.setdefault(k, []).append(a)
    return out


class Emit:
    def __init__(self, prop, col, sp, flags, enc):
        self.prop, self.col, self.sp, self.flags, self.enc = prop, col, sp, flags, enc
        self.seen = set()
        self.ctx = {}

    def __call__(self, symptom, detail, where=None, once=True):
        if self.enc == 'FAST' and self.prop == 'C14' and not symptom.startswith('fast_'):
            symptom = 'fast_' + symptom
        if symptom not in OWN[self.prop]:
            return
        k = (symptom, S.canon(where or {}))
        if once and k in self.seen:
            return
        self.seen.add(k)
        w = {'enc': self.enc}
        w.update(self.ctx)
        w.update(where or {})
        self.col.violation(symptom, self.sp, detail, self.flags, where=w)


def check_case(prop, sp, col, shard='corpus', cap=400):
    col.evaluations += 1
    col.count('cases_' + shard)
    sp = S.normalize(sp)
    flags = S.classify(sp)
    case = D.Case(sp, with_dv=True)
    if case.archs is None:
        col.count('skipped_ref_too_large')
        return
    model = case.model
    rk_dv = ref_keys(case, True)
    rk = ref_keys(case, False)
    encs = ['COMPLETE', 'FAST'] if prop != 'C04' else ['COMPLETE']
    if prop == 'C14':
        encs = ['FAST', 'COMPLETE']
    reach = {}
    rnd = gen.rng_for('vec', S.digest(sp))
    for enc in encs:
        emit = Emit(prop, col, sp, flags, enc)
        r = run_encoder(prop, case, enc, emit, col, rk, rk_dv, rnd, cap)
        reach[enc] = r
        if r is not None:
            r['ctx'] = dict(emit.ctx)
    if prop == 'C14' and reach.get('FAST') is not None and reach.get('COMPLETE') is not None:
        f, c = reach['FAST'], reach['COMPLETE']
        if f['exhaustive'] and c['exhaustive'] and f['keys'] != c['keys']:
            only_c = c['keys'] - f['keys']
            em_ = Emit(prop, col, sp, flags, 'FAST')
            em_.ctx = dict(f.get('ctx') or {})
            # the comparison involves the connection encoders of BOTH processors (the two are selected separately)
            both = {e for r_ in (f, c) for e in str((r_.get('ctx') or {}).get('conn_enc', '')).split(',') if e}
            em_.ctx['conn_enc'] = ','.join(sorted(both))
            em_(
                'fast_differs_from_complete', {'only_fast': len(f['keys'] - c['keys']), 'only_complete': len(only_c)},
                where={'linked_partial_only': not (f['keys'] - c['keys']) and common.linked_partial_only(
                    sp, [x['assign'] for k in only_c for x in rk_dv.get(k, [{'assign': {}}])]),
                       'linked_full_nonzero_only': not (f['keys'] - c['keys']) and common.linked_full_nonzero_only(
                    sp, [x['assign'] for k in only_c for x in rk_dv.get(k, [{'assign': {}}])]),
                       'linked_mixed_only': not (f['keys'] - c['keys']) and common.linked_mixed_only(
                    sp, [x['assign'] for k in only_c for x in rk_dv.get(k, [{'assign': {}}])])})
    nontrivial = len(rk_dv) >= 2
    if nontrivial:
        col.nontrivial.add(S.digest(sp))
        if len(col.samples) < 2:
            col.sample({'spec': common.short(sp), 'reference_architectures': len(rk_dv), 'flags': flags,
                        'decoded': {e: (None if r is None else {'vectors': r['n_vec'], 'distinct_architectures':
                                                                 len(r['keys']), 'exhaustive': r['exhaustive']})
                                    for e, r in reach.items()}})


def run_encoder(prop, case, enc, emit, col, rk, rk_dv, rnd, cap):
    from adsg_core.optimization.graph_processor import GraphProcessor
    from adsg_core.optimization.hierarchy.registry import SelChoiceEncoderType
    model, sp = case.model, case.spec
    b = case.rebuild()
    ref_empty = len(rk) == 0
    if b.dsg is None:
        # the construction API rejected the description (e.g. constrain_choices on a choice that initialisation
        # already resolved): there is no design space graph to decode, which is outside these properties
        col.count('skipped_build_error_' + type(b.error).__name__)
        return None
    try:
        gp = GraphProcessor(b.dsg, encoder_type=getattr(SelChoiceEncoderType, enc))
        dvs = gp.des_vars
        _ = gp.all_des_vars
    except Exception as e:  # noqa
        info = D.exc_info(e)
        if ref_empty and isinstance(e, (RuntimeError, ValueError)):
            col.count('explicit_error_on_empty_space')
        else:
            emit('construct_exception', {'stage': 'processor', 'exc': info, 'n_ref': len(rk)},
                 where={'exc': info['type'], 'site': info['site']})
        return None
    col.count('processors_' + enc)
    try:
        emit.ctx = {'conn_enc': ','.join(sorted({type(d[0].encoder).__name__ for d in gp._conn_choice_data_map.values()}))}
    except Exception:  # noqa
        emit.ctx = {}
    if enc == 'FAST':
        emit.ctx['linked_forced_is_first'] = common.linked_forced_is_first(gp)
    if 'con_unordered_norepl' in emit.flags:
        emit.ctx['norepl_unreduced_all_permanent'] = common.norepl_unreduced_all_permanent(b.dsg)
    dvobs = O.des_vars(gp, b)
    vectors, exhaustive = D.declared_space(gp, cap, rnd)
    sel_key_of = {v: k for k, v in b.sel.items()}
    conn_id_of = {v: k for k, v in b.conn.items()}
    kinds = kinds_of(dvs, sel_key_of, conn_id_of)
    keys_seen = {}
    corrected = {}
    act_by_vec = {}
    n_ok = 0
    for x in vectors:
        col.count('monitor_decode_evaluations')
        try:
            g, x1, a1 = gp.get_graph(x)
        except Exception as e:  # noqa
            info = D.exc_info(e)
            if ref_empty and isinstance(e, (RuntimeError, ValueError)):
                col.count('explicit_error_on_empty_space')
            else:
                emit('decode_exception', {'x': x, 'exc': info, 'n_ref': len(rk)},
                     where={'exc': info['type'], 'site': info['site']})
            continue
        n_ok += 1
        x1, a1 = D.to_list(x1), [bool(v) for v in a1]
        obs = O.instance(g, b)
        if ref_empty:
            emit('unexpected_success_on_empty_space', {'x': x, 'nodes': obs['nodes']})
        # ---- C01: final, feasible, admissible ----
        if not obs['final'] or [c for c in obs['choices']]:
            emit('not_final', {'x': x, 'left': obs['choices']})
        if not obs['feasible']:
            emit('not_feasible', {'x': x})
        k_nodv = O.arch_key(obs)
        if k_nodv not in rk:
            emit('not_an_admissible_architecture', {'x': x, 'x_corrected': x1, 'nodes': obs['nodes'],
                                                    'edges': [e for e in obs['edges'] if e[2] in 'DC']})
        dvn = {n['id'] for n in sp['nodes'] if n['kind'] == 'dv'} & set(obs['nodes'])
        have = {n for n, _ in obs['dv']}
        if dvn - have:
            emit('dv_node_without_value', {'x': x, 'missing': sorted(dvn - have)})
        key = obs_key(obs, model)
        # ---- C03 ----
        bad_range = []
        for i, (dv, v) in enumerate(zip(dvs, x1)):
            if dv.is_discrete:
                if not (0 <= v < dv.n_opts):
                    bad_range.append((i, v))
                if float(v) != int(v):
                    emit('corrected_not_integer', {'x': x, 'x_corrected': x1, 'i': i})
            else:
                if not (dv.bounds[0] <= v <= dv.bounds[1]):
                    bad_range.append((i, v))
        if bad_range:
            emit('corrected_out_of_range', {'x': x, 'x_corrected': x1, 'bad': bad_range})
        try:
            g2, x2, a2 = gp.get_graph(x1)
            x2, a2 = D.to_list(x2), [bool(v) for v in a2]
            obs2 = O.instance(g2, b)
            if x2 != x1 or a2 != a1 or obs_key(obs2, model) != key or obs2['dv'] != obs['dv']:
                only_act = x2 == x1 and obs_key(obs2, model) == key and obs2['dv'] == obs['dv']
                emit('not_idempotent', {'x': x, 'x1': x1, 'a1': a1, 'x2': x2, 'a2': a2,
                                        'same_arch': obs_key(obs2, model) == key,
                                        'only_activeness_of': diff_kinds(kinds, a1, a2) if only_act else None},
                     where={'only_activeness_of': ','.join(diff_kinds(kinds, a1, a2)) if only_act else ''})
        except Exception as e:  # noqa
            emit('not_idempotent', {'x': x, 'x1': x1, 'exc': D.exc_info(e)}, where={'exc': type(e).__name__})
        hint = {}
        for dv, v, act in zip(dvs, x1, a1):
            if act and dv.node in sel_key_of and dv.is_discrete and 0 <= int(v) < dv.n_opts:
                hint[sel_key_of[dv.node]] = b.name(dv.options[int(v)])
        assign, problems = O.read_assignment(obs, model, hint=hint)
        if not problems:
            for kx, want in hint.items():
                if assign.get(kx) != want:
                    emit('vector_instance_mismatch_selection', {'x': x, 'x_corrected': x1, 'choice': kx,
                                                                'vector_says': want, 'instance_has': assign.get(kx)})
        check_conn_vars(gp, b, g, obs, x1, a1, emit, col)
        vals = dict(obs['dv'])
        for dv, v, act in zip(dvs, x1, a1):
            nm = b.name(dv.node)
            if nm in model.nodes and model.nodes[nm]['kind'] == 'dv':
                if act and nm in vals and not _close(vals[nm], v):
                    emit('vector_instance_mismatch_dv', {'x': x, 'x_corrected': x1, 'node': nm,
                                                         'stored': vals[nm], 'vector': v})
                elif not act and nm in obs['nodes']:
                    # the node is part of the instance, so the vector has to describe its value
                    emit('vector_instance_mismatch_dv', {'x': x, 'x_corrected': x1, 'node': nm,
                                                         'stored': vals.get(nm), 'vector': 'inactive'},
                         where={'case': 'present_but_inactive'})
        full_key = S.canon([key, obs['dv']])
        prev = keys_seen.setdefault(full_key, x1)
        if prev != x1:
            emit('not_injective', {'x_a': prev, 'x_b': x1})
        corrected[tuple(x1)] = (a1, key)
        # ---- C07 ----
        present = set(obs['nodes'])
        for i, (dv, v, act) in enumerate(zip(dvs, x1, a1)):
            nd = dv.node
            if act:
                if nd in sel_key_of:
                    exists = model.sel[sel_key_of[nd]]['origin'] in present
                elif nd in conn_id_of:
                    k = [kk for kk in sp['conn'] if kk['id'] == conn_id_of[nd]][0]
                    exists = any(nm in present for nm in S.conn_endpoints(k, 'src'))
                else:
                    exists = b.name(nd) in present
                if not exists:
                    emit('active_but_absent', {'x': x, 'x_corrected': x1, 'var': dv.name, 'active': a1},
                         where={'kind': 'sel' if nd in sel_key_of else 'conn' if nd in conn_id_of else 'dv'})
            else:
                canon_v = 0 if dv.is_discrete else (dv.bounds[0] + dv.bounds[1]) / 2
                if not _close(v, canon_v):
                    emit('inactive_not_canonical', {'x': x, 'x_corrected': x1, 'var': dv.name, 'value': v})
            if not act and not dv.conditionally_active:
                emit('unconditional_var_inactive', {'x': x, 'x_corrected': x1, 'var': dv.name},
                     where={'kind': 'sel' if nd in sel_key_of else 'conn' if nd in conn_id_of else 'dv'})
        try:
            g3, x3, a3 = gp.get_graph(x, create=False)
            x3, a3 = D.to_list(x3), [bool(v) for v in a3]
            col.count('monitor_create_false_evaluations')
            if x3 != x1 or a3 != a1:
                emit('create_false_differs', {'x': x, 'create_true': [x1, a1], 'create_false': [x3, a3]})
        except Exception as e:  # noqa
            emit('create_false_differs', {'x': x, 'exc': D.exc_info(e)}, where={'exc': type(e).__name__})
    # ---- C03, late pass: every corrected vector seen is still a fixed point, with the same architecture, after the
    # processor has served the whole sweep (and in another order than it was first produced in)
    if prop == 'C03' and corrected:
        late = sorted(corrected)
        gen.rng_for('c03late', S.digest(sp), enc).shuffle(late)
        for xc in late[:120]:
            a_c, key_c = corrected[xc]
            col.count('monitor_late_fixed_point_evaluations')
            try:
                gL, xL, aL = gp.get_graph(list(xc))
                xL, aL = D.to_list(xL), [bool(v) for v in aL]
                okey = obs_key(O.instance(gL, b), model)
                if xL != list(xc) or okey != key_c:
                    emit('not_idempotent', {'x1': list(xc), 'x2': xL, 'same_arch': okey == key_c, 'pass': 'late'},
                         where={'only_activeness_of': '', 'pass': 'late'})
                    break
            except Exception as e:  # noqa
                info = D.exc_info(e)
                emit('not_idempotent', {'x1': list(xc), 'exc': info, 'pass': 'late'},
                     where={'exc': info['type'], 'site': info['site'], 'pass': 'late'})
                break
    res = {'keys': {k for _, k in corrected.values()}, 'exhaustive': exhaustive and n_ok == len(vectors),
           'n_vec': len(vectors)}
    col.count('distinct_architectures_' + enc, len(res['keys']))
    col.count('distinct_corrected_vectors_' + enc, len(corrected))
    # ---- coverage of the reference by the declared space (FAST: C14; COMPLETE: C04 via enumeration) ----
    if enc == 'FAST' and exhaustive and n_ok == len(vectors):
        # continuous DVs do not matter for the key (discrete DV values only)
        missing = set(rk_dv) - res['keys']
        if missing:
            a = rk_dv[sorted(missing)[0]][0]
            emit('fast_missing_architectures', {'n_missing': len(missing), 'n_ref': len(rk_dv),
                                                'example_assign': a['assign'], 'example_conn': a['conn']},
                 where={'linked_partial_only': common.linked_partial_only(
                     sp, [x['assign'] for k in missing for x in rk_dv[k]]),
                        'linked_full_nonzero_only': common.linked_full_nonzero_only(
                     sp, [x['assign'] for k in missing for x in rk_dv[k]]),
                        'linked_mixed_only': common.linked_mixed_only(
                     sp, [x['assign'] for k in missing for x in rk_dv[k]])})
        # a vector that is valid on a fresh processor is returned unchanged by the used one
        b2 = case.rebuild()
        try:
            gp2 = GraphProcessor(b2.dsg, encoder_type=SelChoiceEncoderType.FAST)
            for xv in list(corrected)[:60]:
                _, xf, _ = gp2.get_graph(list(xv))
                xf = D.to_list(xf)
                if list(xf) == list(xv):
                    _, xu, _ = gp.get_graph(list(xv))
                    if D.to_list(xu) != list(xv):
                        emit('fast_valid_vector_changed', {'x': list(xv), 'used_processor_returns': D.to_list(xu)})
                gp2 = GraphProcessor(b2.dsg, encoder_type=SelChoiceEncoderType.FAST)
        except Exception as e:  # noqa
            emit('fast_valid_vector_changed', {'exc': D.exc_info(e)}, where={'exc': type(e).__name__})
    if enc == 'COMPLETE' and prop in ('C04', 'C07'):
        n0 = len(col.violations)
        E = check_enumeration(prop, gp, b, case, emit, col, rk_dv, corrected, dvs, kinds)
        if prop == 'C04' and E is not None and len(col.violations) == n0 and len(E[0]) >= 2:
            check_fixed_enumeration(gp, emit, col, E[0], E[1], dvs, kinds,
                                    gen.rng_for('c04fix', S.digest(case.spec)))
    return res


def check_fixed_enumeration(gp, emit, col, rows, acts, dvs, kinds, rnd, max_fix=4):
    """C04 'with fixed variables': the enumeration of the restricted problem is exactly the slice of the (already
    verified) full enumeration in which the fixed variable is active at the fixed value, plus possibly designs in which
    it is inactive; one row each; the count with_fixed agrees."""
    cand = [(i, v) for i, dv in enumerate(dvs) if kinds[i] != 'conn' and dv.is_discrete for v in range(dv.n_opts)]
    rnd.shuffle(cand)
    E = list(zip(rows, acts))
    for i, v in cand[:max_fix]:
        dv = dvs[i]
        col.count('monitor_fixed_enumerations')
        try:
            gp.fix_des_var(dv, v)
        except Exception as e:  # noqa
            info = D.exc_info(e)
            emit('enumeration_exception', {'exc': info, 'stage': 'fix', 'var': dv.name, 'value': v},
                 where={'exc': info['type'], 'site': info['site'], 'stage': 'fix'})
            continue
        try:
            res = gp.get_all_discrete_x()
            if res is None:
                col.count('fixed_enumeration_none')
                continue
            Xf, Af = res
            got_l = [(tuple(D.to_list(r)), tuple(bool(x) for x in a)) for r, a in zip(Xf, Af)]
            got = set(got_l)

            def drop(r):
                return tuple(x for j, x in enumerate(r) if j != i)
            upper = {(drop(r), drop(a)) for r, a in E if (not a[i]) or r[i] == v}
            lower = {(drop(r), drop(a)) for r, a in E if a[i] and r[i] == v}
            if lower:
                col.count('fixed_enumerations_nonempty_slice')
            if len(got) != len(got_l):
                emit('duplicate_rows', {'fixed': [dv.name, v], 'n_rows': len(got_l), 'n_distinct': len(got)},
                     where={'stage': 'fixed'})
            if got - upper:
                emit('enumeration_extra_architectures', {'fixed': [dv.name, v], 'n_extra': len(got - upper),
                                                         'n_rows': len(got), 'example_row': sorted(got - upper)[0]},
                     where={'stage': 'fixed'})
            if lower - got:
                emit('enumeration_missing_architectures', {'fixed': [dv.name, v], 'n_missing': len(lower - got),
                                                           'n_rows': len(got), 'n_slice': len(lower),
                                                           'example_row': sorted(lower - got)[0]},
                     where={'stage': 'fixed'})
            n_fixed = gp.get_n_valid_designs(with_fixed=True)
            if n_fixed != len(got_l):
                emit('n_valid_mismatch', {'fixed': [dv.name, v], 'n_valid_with_fixed': int(n_fixed),
                                          'n_rows': len(got_l)}, where={'stage': 'fixed'})
        except Exception as e:  # noqa
            info = D.exc_info(e)
            emit('enumeration_exception', {'exc': info, 'stage': 'fixed', 'var': dv.name, 'value': v},
                 where={'exc': info['type'], 'site': info['site'], 'stage': 'fixed'})
        finally:
            try:
                gp.free_des_var(dv)
            except Exception:  # noqa
                return


def kinds_of(dvs, sel_key_of, conn_id_of):
    out = []
    for dv in dvs:
        out.append('sel' if dv.node in sel_key_of else 'conn' if dv.node in conn_id_of else 'dv')
    return out


def diff_kinds(kinds, a, b_):
    return sorted({k for k, p, q in zip(kinds, a, b_) if p != q})


def _close(a, b_):
    try:
        return abs(float(a) - float(b_)) <= 1e-9 * max(1., abs(float(a)), abs(float(b_)))
    except Exception:  # noqa
        return a == b_


CONN_CALLS = []


def _conn_post(args, kwargs, res, exc):
    if exc is None:
        CONN_CALLS.append((args[0], res))


def check_conn_vars(gp, b, g, obs, x1, a1, emit, col):
    """the connection variables decode -- through the processor's own manager, observed by a tap on the real
    get_conn_idx call made while decoding the corrected vector -- to exactly the CONNECTS edges present"""
    try:
        data = gp._conn_choice_data_map
    except Exception:  # noqa
        col.count('conn_var_clause_skipped')
        return
    if not data:
        return
    del CONN_CALLS[:]
    try:
        gp.get_graph(x1)
    except Exception:  # noqa
        return
    calls = list(CONN_CALLS)
    fixed = getattr(gp, '_fixed_values', {})
    for cn, (mgr, node_map, exist_map, i0, i1, all_conn_nodes) in data.items():
        srcs, tgts = node_map
        mine = [r for m, r in calls if m is mgr]
        if not mine:
            continue
        xv, act, edges = mine[-1]
        col.count('monitor_conn_var_evaluations')
        want = {}
        for i, j in (edges or []):
            kk = (b.name(srcs[i]), b.name(tgts[j]))
            want[kk] = want.get(kk, 0) + 1
        sn, tn = {b.name(s) for s in srcs}, {b.name(t) for t in tgts}
        have = {(u, v): c for u, v, t, c in obs['edges'] if t == 'C' and u in sn and v in tn}
        sub = None
        if not fixed:
            sub = [int(v) for v in x1[i0:i1]]
        if want != have or (sub is not None and [int(v) for v in xv] != sub):
            emit('vector_instance_mismatch_connection', {'x_corrected': x1, 'sub_vector': sub,
                                                         'manager_vector': [int(v) for v in xv],
                                                         'manager_edges': sorted(want.items()),
                                                         'instance_edges': sorted(have.items())})


def check_enumeration(prop, gp, b, case, emit, col, rk_dv, corrected, dvs, kinds):
    """C04 (+ the enumeration path of C07)"""
    model = case.model
    try:
        res = gp.get_all_discrete_x()
    except Exception as e:  # noqa
        info = D.exc_info(e)
        emit('enumeration_exception', {'exc': info}, where={'exc': info['type'], 'site': info['site']})
        return
    if res is None:
        col.count('enumeration_none')
        return
    X, A = res
    col.count('monitor_enumerations')
    rows = [tuple(D.to_list(r)) for r in X]
    acts = [tuple(bool(v) for v in r) for r in A]
    disc = [i for i, dv in enumerate(dvs) if dv.is_discrete]
    if len(set(zip(rows, acts))) != len(rows) or len({tuple(r[i] for i in disc) for r in rows}) != len(rows):
        emit('duplicate_rows', {'n_rows': len(rows), 'n_distinct': len(set(rows))})
    keys = {}
    n_dec = 0
    for r, a in zip(rows, acts):
        if n_dec >= 3000:
            break
        n_dec += 1
        col.count('monitor_row_decodes')
        try:
            g, x1, a1 = gp.get_graph(list(r))
        except Exception as e:  # noqa
            emit('row_not_fixed_point', {'row': r, 'exc': D.exc_info(e)}, where={'exc': type(e).__name__})
            continue
        x1, a1 = D.to_list(x1), [bool(v) for v in a1]
        if [x1[i] for i in disc] != [r[i] for i in disc]:
            emit('row_not_fixed_point', {'row': r, 'decoded': x1})
        if list(a) != a1:
            dk = ','.join(diff_kinds(kinds, list(a), a1))
            emit('row_activeness_differs', {'row': r, 'listed': list(a), 'decoded': a1}, where={'kinds': dk})
            emit('activeness_path_disagree', {'row': r, 'enumeration': list(a), 'decode': a1},
                 where={'paths': 'enumeration_vs_decode', 'kinds': dk})
        # raw vectors that were corrected to this row must have reported the same activeness
        t = tuple(x1)
        if t in corrected and corrected[t][0] != a1:
            emit('activeness_path_disagree', {'row': r, 'decode_raw': corrected[t][0], 'decode_row': a1},
                 where={'paths': 'raw_vs_corrected', 'kinds': ','.join(diff_kinds(kinds, corrected[t][0], a1))})
        for i, dv in enumerate(dvs):
            if not dv.conditionally_active and not a[i]:
                emit('unconditional_var_inactive', {'row': r, 'var': dv.name}, where={'kind': 'enumeration'})
        obs = O.instance(g, b)
        k = obs_key(obs, model)
        if k in keys:
            emit('row_decodes_to_duplicate_architecture', {'rows': [keys[k], r]})
        keys[k] = r
    if n_dec == len(rows):
        got, want = set(keys), set(rk_dv)
        if want - got:
            a = rk_dv[sorted(want - got)[0]][0]
            emit('enumeration_missing_architectures', {'n_missing': len(want - got), 'n_ref': len(want),
                                                       'n_rows': len(rows), 'example_assign': a['assign'],
                                                       'example_conn': a['conn'], 'example_dv': a['dv']})
        if got - want:
            emit('enumeration_extra_architectures', {'n_extra': len(got - want), 'n_ref': len(want),
                                                     'example_row': keys[sorted(got - want)[0]]})
    try:
        n_valid = gp.get_n_valid_designs()
        n_decl = gp.get_n_design_space()
        ratio = gp.get_imputation_ratio(include_cont=False)
        col.count('monitor_count_evaluations')
        if n_valid != len(rows):
            emit('n_valid_mismatch', {'n_valid': n_valid, 'n_rows': len(rows), 'n_ref': len(rk_dv)})
        prod = 1
        for dv in gp.all_des_vars:
            if dv.is_discrete:
                prod *= dv.n_opts
        if n_decl != prod:
            emit('n_declared_mismatch', {'n_declared': n_decl, 'product': prod})
        if n_valid > 0 and abs(ratio - n_decl / n_valid) > 1e-9 * max(1, ratio):
            emit('imp_ratio_mismatch', {'ratio': ratio, 'n_declared': n_decl, 'n_valid': n_valid})
        st = gp.get_statistics()
        row = st.loc['total-design-space']
        if int(row['n_valid']) != n_valid or int(row['n_declared']) != n_decl:
            emit('statistics_mismatch', {'stats': [int(row['n_valid']), int(row['n_declared'])],
                                         'api': [n_valid, n_decl]})
    except Exception as e:  # noqa
        info = D.exc_info(e)
        emit('enumeration_exception', {'exc': info, 'stage': 'counts'}, where={'exc': info['type'],
                                                                                'site': info['site']})
    return (rows, acts) if n_dec == len(rows) else None


def check_huge_fast(col, seed):
    """C14 in the regime the fast encoder exists for: design spaces far too large for the complete analysis
    (62 / 63 / 64 / 70 independent two-option choices, 2 x 41 three-option choices).  Only the fast encoder is built;
    seeded vectors must decode to exactly the chosen options, unchanged."""
    from adsg_core.optimization.graph_processor import GraphProcessor
    from adsg_core.optimization.hierarchy.registry import SelChoiceEncoderType
    for n_ch, n_opt in ((62, 2), (63, 2), (64, 2), (70, 2), (41, 3)):
        nodes = [{'id': 'R', 'kind': 'named'}]
        sel = []
        for i in range(n_ch):
            opts = ['O%d_%d' % (i, j) for j in range(n_opt)]
            nodes += [{'id': o, 'kind': 'named'} for o in opts]
            sel.append({'key': 'C%03d' % i, 'id': 'C%03d' % i, 'origin': 'R', 'options': opts})
        sp = S.normalize({'nodes': nodes, 'edges': [], 'sel': sel, 'start': ['R']})
        col.evaluations += 1
        col.count('monitor_huge_fast_cases')
        emit = Emit('C14', col, {'huge': [n_ch, n_opt]}, [], 'FAST')
        b = B.build(sp)
        try:
            gp = GraphProcessor(b.dsg, encoder_type=SelChoiceEncoderType.FAST)
            dvs = gp.des_vars
        except Exception as e:  # noqa
            info = D.exc_info(e)
            emit('construct_exception', {'stage': 'processor', 'exc': info, 'n_choices': n_ch, 'n_options': n_opt},
                 where={'exc': info['type'], 'site': info['site'], 'huge': True})
            continue
        rnd = gen.rng_for('c14huge', seed, n_ch, n_opt)
        for _ in range(4):
            x = [rnd.randrange(dv.n_opts) for dv in dvs]
            col.count('monitor_huge_fast_decodes')
            try:
                g, x1, a1 = gp.get_graph(x)
                want = {'R'} | {sel[i]['options'][v] for i, v in enumerate(x)}
                got = {b.name(n) for n in g.graph.nodes}
                if D.to_list(x1) != x or not all(a1) or got != want or not g.final or not g.feasible:
                    emit('not_an_admissible_architecture', {'n_choices': n_ch, 'x_changed': D.to_list(x1) != x,
                                                            'extra': sorted(got - want)[:3], 'missing': sorted(want - got)[:3]},
                         where={'huge': True})
                    break
            except Exception as e:  # noqa
                info = D.exc_info(e)
                emit('decode_exception', {'exc': info, 'n_choices': n_ch, 'n_options': n_opt},
                     where={'exc': info['type'], 'site': info['site'], 'huge': True})
                break


def worker(task, col):
    prop = task['prop']
    from adsg_core.optimization.graph_processor import GraphProcessor
    M.Tap(GraphProcessor, 'get_graph', counter=col.count)
    from adsg_core.optimization.assign_enc.assignment_manager import AssignmentManager, LazyAssignmentManager
    M.Tap(AssignmentManager, 'get_conn_idx', post=_conn_post, counter=col.count)
    M.Tap(LazyAssignmentManager, 'get_conn_idx', post=_conn_post, counter=col.count)
    cap = task.get('cap', 300)
    if task.get('replay'):
        v = task['replay']['violation']
        if v.get('pre_spec'):
            from ..core import Collector
            tmp = Collector()
            common.guard(tmp, check_case, prop, v['pre_spec'], tmp, 'replay_pre', cap=cap)
        common.guard(col, check_case, prop, v['spec'], col, 'replay', cap=max(cap, 2000))
        return
    if task['shard'] == 1 and prop == 'C14':
        common.guard(col, check_huge_fast, col, task['seed'])
    if task['shard'] == 0:
        for c in common.corpus(prop):
            n0 = len(col.violations)
            common.guard(col, check_case, prop, c['spec'], col, 'corpus', cap=cap)
            if c['spec'].get('conn') and len(col.violations) > n0:
                common.attribute_to_pattern_encoders(col, n0, lambda cc, sp=c['spec']: check_case(prop, sp, cc, 'rerun',
                                                                                                cap=cap))
    for i in range(task['lo'], task['hi']):
        name, sp = case_spec(prop, task['seed'], i)
        n0 = len(col.violations)
        if prop in ('C07', 'C03') and sp.get('conn') and i % 2 == 0:
            # "every registered connection encoder": the same case with selection reduced to one registered encoder
            from ..core import Collector
            tmp = Collector()
            try:
                # (the selector's own size guards are bypassed by forcing a family: bound the attempt)
                with common.only_encoder(task['seed'] * 7 + i // 2) as oe, common.time_limit(25):
                    check_case(prop, sp, tmp, name + '_forced', cap=cap)
                ok_forced = not any(v['symptom'] in ('construct_exception', 'fast_construct_exception')
                                    for v in tmp.violations)
            except (Exception, common.HarnessTimeout):  # noqa  (candidate cannot encode these settings / too slow)
                ok_forced = False
            if ok_forced and tmp.evaluations:
                col.count('forced_encoder_cases')
                col.count('forced_family_' + oe.family)
                col.count('forced_imputer_' + oe.imputer)
                for v in tmp.violations:
                    v.setdefault('where', {})['forced_encoder'] = True
                col.violations.extend(tmp.violations)
                for k_, v_ in tmp.counters.items():
                    col.count(k_, v_)
                col.evaluations += tmp.evaluations
                col.nontrivial |= tmp.nontrivial
                continue
            col.count('forced_encoder_fallback')
        common.guard(col, check_case, prop, sp, col, name, cap=cap)
        if sp.get('conn') and len(col.violations) > n0:
            common.attribute_to_pattern_encoders(col, n0, lambda c, sp=sp: check_case(prop, sp, c, 'rerun', cap=cap))
        if prop in ('C01', 'C04') and sp.get('conn') and i % 3 == 0:
            prev = sp
            for sp2 in common.guard(col, sibling_spec, sp, gen.rng_for('sibling', prop, task['seed'], i)) or []:
                n0 = len(col.violations)
                col.count('sibling_cases')
                common.guard(col, check_case, prop, sp2, col, name + '_sibling', cap=cap)
                if len(col.violations) > n0:
                    for v in col.violations[n0:]:
                        v.setdefault('where', {})['sibling_after'] = S.digest(prev)[:12]
                        v['pre_spec'] = prev    # replay decodes this graph first, in the same process
                    common.attribute_to_pattern_encoders(col, n0, lambda c, sp=sp2: check_case(prop, sp, c, 'rerun',
                                                                                               cap=cap))
                prev = sp2


RULES = {
    'C01': 'decode every vector of the declared space (cap per case, else seeded sample) with both encoders; '
           'oracle: final, feasible, architecture (node set + edge multiset) is one of the reference architectures',
    'C03': 'decode(decode(x).x) == decode(x); corrected vector in range; active selection variable names the wired '
           'option; connection sub-vector decodes through the manager to the CONNECTS edges; DV nodes carry the '
           'vector value; corrected vector -> architecture injective',
    'C04': 'complete encoder: get_all_discrete_x rows vs reference architectures (set equality, one row each), '
           'row fixed points, counts, imputation ratio, statistics; then up to 4 (variable, value) fixes per case: restricted '
           'enumeration == slice of the full one (one row each, with_fixed count)',
    'C07': 'active => node exists; inactive => canonical value; unconditional => always active; activeness equal '
           'across enumeration / create=True / create=False / raw-vector paths',
    'C14': 'fast encoder: every vector decodes to a reference architecture; declared space covers the reference '
           'set; valid vectors returned unchanged by a used processor; reachable set equals the complete encoder\'s',
}


def main(run):
    prop = run.prop
    if run.replay:
        run.map([{'replay': common.load_replay(run.replay), 'shard': 0, 'lo': 0, 'hi': 0}])
    else:
        n = {'quick': 480, 'thorough': 9000}[run.tier]
        cap = {'quick': 200, 'thorough': 1500}[run.tier]
        run.map(common.shard_tasks(n, run.jobs, cap=cap), timeout=3000)
    run.finish(RULES[prop] + '; generated DSGs over classes ' + ', '.join(p[0] for p in PROFILES) +
               ' + corpus; non-trivial = >=2 reference architectures; distinct = canonical spec hash',
               min_nontrivial=20, deciding=['monitor_decode_evaluations', 'GraphProcessor.get_graph'],
               assumptions=['reference semantics from docs/theory.md (self-tested on its worked tables)',
                            'declared spaces above the cap are sampled (seeded), not enumerated'])
