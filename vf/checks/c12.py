"""C12: encoder selection always succeeds and disk caches are transparent.

Phase A workers select encoders with a cold cache directory (and exercise time limits and injected candidate
faults in-process); phase B workers are other processes started on the *same* cache directories: they load the
cached selection, recompute it with caches disabled and compare the observable codings."""
import os
import time
import shutil
import tempfile
import itertools
import numpy as np
from .. import gen, spec as S, build as B, refmodel as R, drive as D, monitor as M
from . import common


def gen_case(seed, i):
    rnd = gen.rng_for('C12', seed, i)
    r = rnd.random()
    if r < .5:
        cs = gen.gen_settings(rnd, n_src=(1, 2), n_tgt=(1, 3), p_patterns=.6, p_override=.15,
                              alphabet=gen.DEG_ALPHABET[:9], p_parallel=.1)
    elif r < .8 and not (r > .7 and i % 3 == 0):
        cs = gen.gen_settings(rnd, n_src=(1, 3), n_tgt=(1, 2), p_patterns=.6, p_override=.2, p_parallel=.1)
    elif r < .8:
        # scenarios in which the SAME connectors exist and only a degree override differs (what a grouping connector
        # with conditional members produces); every third case also runs with the candidate faults that leave only
        # lazy encoders, whose imputers memoise per scenario
        cs = gen.gen_settings(rnd, n_src=(1, 2), n_tgt=(2, 3), p_patterns=0., alphabet=gen.DEG_ALPHABET[:9], p_parallel=0.)
        ns, nt = len(cs['src']), len(cs['tgt'])
        pats = [{'src_exists': [True] * ns, 'tgt_exists': [True] * nt, 'src_override': {}, 'tgt_override': {}}]
        for _ in range(rnd.randint(1, 2)):
            side, n_ = rnd.choice([('src', ns), ('tgt', nt)])
            p_ = {'src_exists': [True] * ns, 'tgt_exists': [True] * nt, 'src_override': {}, 'tgt_override': {}}
            p_[side + '_override'][str(rnd.randrange(n_))] = sorted(rnd.sample(range(4), rnd.randint(1, 2)))
            if gen.pattern_key(p_) not in [gen.pattern_key(q) for q in pats]:
                pats.append(p_)
        cs['patterns'] = pats
    elif r < .84:
        # nearly degenerate: one open-ended node against a few nodes that are (almost) pinned -- a handful of
        # connection sets; candidate codings that recognise the shape may end up with a one-valued variable
        one = [{'deg': {'min': rnd.choice([0, 0, 1])}, 'rep': rnd.random() < .3}]
        many = [{'deg': {'list': rnd.choice([[1], [1], [0, 1], [0, 1], [2], [1, 2]])}, 'rep': False}
                for _ in range(rnd.randint(2, 3))]
        src, tgt = (one, many) if rnd.random() < .6 else (many, one)
        cs = {'src': src, 'tgt': tgt, 'excluded': [], 'patterns': None, 'max_conn_parallel': None}
    elif r < .9:
        # degenerate: exactly one or zero connection sets
        cs = {'src': [{'deg': {'list': [1]}, 'rep': False}], 'tgt': [{'deg': {'list': [rnd.choice([1, 2])]},
                                                                     'rep': False}],
              'excluded': [], 'patterns': None, 'max_conn_parallel': None}
    else:
        from . import c10
        cs = c10.gen_case(seed, i * 7 + 3)
    return cs


def _cnode(n):
    d = n['deg']
    if 'list' in d:
        deg = ['list', sorted(d['list'])]
    elif d.get('max') is None:
        deg = ['min', d['min']]
    else:
        deg = ['list', list(range(d['min'], d['max'] + 1))]
    return [deg, bool(n.get('rep', False))]


def canonical_settings(cs):
    return S.canon({'src': [_cnode(n) for n in cs['src']], 'tgt': [_cnode(n) for n in cs['tgt']], 'ex': sorted(map(tuple, cs.get('excluded') or [])),
                    'pat': [gen.pattern_key(p) for p in cs['patterns']] if cs.get('patterns') is not None else None,
                    'par': cs.get('max_conn_parallel')})


def near_pairs(cs, rnd):
    """adversarial variants that must not share a cache key with cs unless they are the same settings"""
    out = []
    c = S.normalize_copy(cs) if hasattr(S, 'normalize_copy') else _copy(cs)
    if c['src']:
        d = _copy(cs)
        d['src'][0]['rep'] = not d['src'][0].get('rep', False)
        out.append(d)
    d = _copy(cs)
    d['max_conn_parallel'] = (cs.get('max_conn_parallel') or 2) + 1
    out.append(d)
    if len(cs['src']) * len(cs['tgt']) > 1:
        d = _copy(cs)
        e = [rnd.randrange(len(cs['src'])), rnd.randrange(len(cs['tgt']))]
        if e in d['excluded']:
            d['excluded'].remove(e)
        else:
            d['excluded'].append(e)
        out.append(d)
        d2 = _copy(d)
        d2['excluded'] = list(reversed(d2['excluded']))   # same settings, other order: may share the key
        out.append(d2)
    if len(cs['tgt']) > 1:
        # one exclusion from the same source to another target (same count per source, other target)
        i_s = rnd.randrange(len(cs['src']))
        j1 = rnd.randrange(len(cs['tgt']))
        j2 = (j1 + 1 + rnd.randrange(len(cs['tgt']) - 1)) % len(cs['tgt'])
        for j_ in (j1, j2):
            d = _copy(cs)
            d['excluded'] = [[i_s, j_]]
            out.append(d)
    if len(cs['src']) > 1:
        j_t = rnd.randrange(len(cs['tgt']))
        i1 = rnd.randrange(len(cs['src']))
        i2 = (i1 + 1 + rnd.randrange(len(cs['src']) - 1)) % len(cs['src'])
        for i_ in (i1, i2):
            d = _copy(cs)
            d['excluded'] = [[i_, j_t]]
            out.append(d)
    if cs.get('patterns'):
        d = _copy(cs)
        d['patterns'] = d['patterns'][:-1] or None
        out.append(d)
        d = _copy(cs)
        p = d['patterns'][0]
        p['src_override'] = dict(p.get('src_override') or {})
        p['src_override']['0'] = [1, 2]
        out.append(d)
    d = _copy(cs)
    d['tgt'][0]['deg'] = {'list': [1, 2]} if d['tgt'][0]['deg'] != {'list': [1, 2]} else {'list': [1]}
    out.append(d)
    return out


def _copy(cs):
    import json
    return json.loads(json.dumps(cs))


def coding(mgr, cs, rnd_key, cap=120):
    """observable coding of a manager: design variables and a decode table on seeded sample vectors"""
    import adsg_core.optimization.assign_enc.matrix as mx
    dvs = [int(dv.n_opts) for dv in mgr.design_vars]
    pats = cs['patterns'] if cs.get('patterns') is not None else [None]
    tab = []
    for p in pats:
        existence = B.make_existence(p) if p is not None else mx.NodeExistence()
        rnd = gen.rng_for('c12vec', rnd_key, S.canon(p))
        space = int(np.prod(dvs)) if dvs else 1
        if space <= cap:
            vecs = [list(v) for v in itertools.product(*[range(n) for n in dvs])]
        else:
            vecs = [[rnd.randrange(n) for n in dvs] for _ in range(cap)]
        for x in vecs:
            try:
                x1, act, m = mgr.get_matrix(np.array(x, dtype=int), existence=existence)
                tab.append([x, [int(v) for v in x1], [bool(v) for v in act], np.array(m).tolist()])
            except Exception as e:  # noqa  (judged by check_working; here only recorded)
                tab.append([x, 'EXC:' + type(e).__name__])
    return {'dvs': dvs, 'table': S.digest(tab), 'encoder': str(mgr.encoder)}


def check_working(mgr, cs, col, where, label):
    """a returned coding must satisfy the C10 laws on a sample"""
    import adsg_core.optimization.assign_enc.matrix as mx
    pats = cs['patterns'] if cs.get('patterns') is not None else [None]
    refs = [set(R.settings_matrices(cs, p)) for p in pats]
    dvs = [int(dv.n_opts) for dv in mgr.design_vars]
    where = dict(where, encoder=type(mgr.encoder).__name__)
    # (not judged for selections under a tiny limit: the selector decides "nothing to choose" from a count that is itself
    # time-limited, so with a limit of milliseconds the outcome depends on machine load; counted instead)
    tiny = label.startswith('limit_') or label == 'all_slow'
    if max(len(r) for r in refs) <= 1 and dvs and tiny:
        col.count('variables_for_single_set_under_tiny_limit_not_judged')
    if max(len(r) for r in refs) <= 1 and dvs and not tiny:
        col.violation('variables_declared_for_at_most_one_connection_set', cs,
                      {'dvs': dvs, 'n_matrices': [len(r) for r in refs], 'encoder': str(mgr.encoder), 'via': label}, [],
                      where=where)
    if any(n < 2 for n in dvs):
        col.violation('selected_coding_has_one_option_variable', cs, {'dvs': dvs, 'encoder': str(mgr.encoder)}, [],
                      where=where)
    for p, ref in zip(pats, refs):
        if not ref:
            continue
        existence = B.make_existence(p) if p is not None else mx.NodeExistence()
        rnd = gen.rng_for('c12w', S.digest(cs), S.canon(p))
        space = int(np.prod(dvs)) if dvs else 1
        exhaustive = space <= 200
        vecs = [list(v) for v in itertools.product(*[range(n) for n in dvs])] if exhaustive else \
            [[rnd.randrange(n) for n in dvs] for _ in range(120)]
        image = set()
        for x in vecs:
            col.count('monitor_selected_coding_evaluations')
            try:
                x1, act, m = mgr.get_matrix(np.array(x, dtype=int), existence=existence)
                mt = tuple(tuple(int(v) for v in row) for row in m)
                x1 = [int(v) for v in x1]
                bad = None
                if mt not in ref:
                    bad = 'selected_coding_decodes_invalid_matrix'
                elif any(not (0 <= v < n) for v, n in zip(x1, dvs)):
                    bad = 'selected_coding_vector_out_of_range'
                else:
                    x2, act2, m2 = mgr.get_matrix(np.array(x1[:len(dvs)], dtype=int), existence=existence)
                    if [int(v) for v in x2] != x1 or tuple(tuple(int(v) for v in row) for row in m2) != mt:
                        bad = 'selected_coding_not_idempotent'
                if bad:
                    col.violation(bad, cs, {'x': x, 'x1': x1, 'matrix': mt, 'pattern': p, 'encoder': str(mgr.encoder),
                                            'via': label}, [], where=dict(where, encoder=type(mgr.encoder).__name__))
                    return
                image.add(mt)
            except Exception as e:  # noqa
                info = D.exc_info(e)
                col.violation('selected_coding_exception', cs, {'x': x, 'pattern': p, 'exc': info,
                                                                'encoder': str(mgr.encoder), 'via': label}, [],
                              where=dict(where, exc=info['type'], site=info['site'],
                                         encoder=type(mgr.encoder).__name__))
                return
        if exhaustive and image != ref:
            col.violation('selected_coding_not_onto', cs, {'pattern': p, 'n_ref': len(ref), 'n_image': len(image),
                                                           'encoder': str(mgr.encoder), 'via': label}, [],
                          where=dict(where, encoder=type(mgr.encoder).__name__))
            return


def select(cs, col, where, timeout=None, cache=True, label='cold'):
    from adsg_core.optimization.assign_enc.selector import EncoderSelector
    settings = B.make_settings(cs)
    sel = EncoderSelector(settings)
    if timeout is not None:
        sel.encoding_timeout = timeout
    refs = [R.settings_matrices(cs, p) for p in (cs['patterns'] if cs.get('patterns') is not None else [None])]
    any_mat = any(len(r) > 0 for r in refs)
    col.count('monitor_selection_evaluations')
    try:
        mgr = sel.get_best_assignment_manager(cache=cache)
    except Exception as e:  # noqa
        info = D.exc_info(e)
        col.violation('selection_failed', cs, {'exc': info, 'any_matrix': any_mat, 'timeout': timeout, 'via': label}, [],
                      where=dict(where, exc=info['type'], site=info['site'], via=label,
                                 starved=bool(info['type'] == 'RuntimeError' and 'Cannot find best encoder' in info['msg'])))
        return None, sel
    return mgr, sel


def inject_faults(kind):
    """replace candidate factories of the selector by faulty ones; returns a restore function"""
    import adsg_core.optimization.assign_enc.selector as sm
    from adsg_core.optimization.assign_enc.lazy_encoding import LazyEncoder
    saved = {n: list(getattr(sm, n)) for n in ('PATTERN_ENCODERS', 'EAGER_ENCODERS', 'LAZY_ENCODERS',
                                               'EAGER_ENUM_ENCODERS')}

    def faulty(fac, exc=None, delay=None):
        def make(imp):
            enc = fac(imp)
            cls = type(enc)
            if isinstance(enc, LazyEncoder):
                def set_settings(self, settings, _orig=cls.set_settings, _cls=cls):
                    self.__class__ = _cls   # keep the object picklable (the selector caches its result)
                    if delay:
                        time.sleep(delay)
                    if exc:
                        raise exc('injected')
                    return _orig(self, settings)
                enc.__class__ = type('F' + cls.__name__, (cls,), {'set_settings': set_settings})
            else:
                def _encode(self, matrix, _orig=cls._encode, _cls=cls):
                    self.__class__ = _cls
                    if delay:
                        time.sleep(delay)
                    if exc:
                        raise exc('injected')
                    return _orig(self, matrix)
                enc.__class__ = type('F' + cls.__name__, (cls,), {'_encode': _encode})
            return enc
        return make

    if kind == 'pattern_and_eager_raise':
        sm.PATTERN_ENCODERS[:] = [faulty(f, exc=RuntimeError) for f in saved['PATTERN_ENCODERS']]
        sm.EAGER_ENCODERS[:] = [faulty(f, exc=MemoryError) for f in saved['EAGER_ENCODERS']]
    elif kind == 'lazy_raise':
        sm.LAZY_ENCODERS[:] = [faulty(f, exc=TimeoutError) for f in saved['LAZY_ENCODERS']]
    elif kind == 'all_but_enum_raise':
        for n, ex in (('PATTERN_ENCODERS', RuntimeError), ('EAGER_ENCODERS', MemoryError),
                      ('LAZY_ENCODERS', TimeoutError)):
            getattr(sm, n)[:] = [faulty(f, exc=ex) for f in saved[n]]
    elif kind in ('all_but_lazy_raise', 'only_lazy_conn_idx'):
        # what a tiny time limit does on a loaded machine: every encoder that enumerates matrices is out (and, in the
        # second variant, every lazy encoder but the cheapest family)
        for n, ex in (('PATTERN_ENCODERS', RuntimeError), ('EAGER_ENCODERS', TimeoutError),
                      ('EAGER_ENUM_ENCODERS', MemoryError)):
            getattr(sm, n)[:] = [faulty(f, exc=ex) for f in saved[n]]
        if kind == 'only_lazy_conn_idx':
            def keep_conn_idx(fac):
                def make(imp):
                    enc = fac(imp)
                    if type(enc).__name__ == 'LazyConnIdxMatrixEncoder':
                        return enc
                    return faulty(fac, exc=TimeoutError)(imp)
                return make
            sm.LAZY_ENCODERS[:] = [keep_conn_idx(f) for f in saved['LAZY_ENCODERS']]
    elif kind == 'all_slow':
        for n in saved:
            getattr(sm, n)[:] = [faulty(f, delay=.05) for f in saved[n]]

    def restore():
        for n, lst in saved.items():
            getattr(sm, n)[:] = lst
    return restore


def first_selection_probe(col, which=0):
    """The very first selection of a process (the selector instance that also performs the numba warm-up) must give
    the coding that later selectors compute for the same settings: it is the one that ends up in the selection cache.
    Settings: choose 2 of 5 (matched by a pattern encoder; the non-pattern winner has another signature)."""
    cs = {'src': [{'deg': {'list': [2]}, 'rep': False}], 'tgt': [{'deg': {'list': [0, 1]}, 'rep': False} for _ in range(5)],
          'excluded': [], 'patterns': None, 'max_conn_parallel': None}
    if which % 3 == 1:    # exactly one connection set, of a shape pattern encoders accept: no variables expected
        cs = dict(cs, src=[{'deg': {'min': 1}, 'rep': False}], tgt=[{'deg': {'min': 1}, 'rep': False} for _ in range(2)])
    elif which % 3 == 2:  # no connection set at all
        cs = dict(cs, src=[{'deg': {'min': 3}, 'rep': False}], tgt=[{'deg': {'min': 1}, 'rep': False} for _ in range(2)])
    main_cache = os.environ.get('XDG_CACHE_HOME')
    os.environ['XDG_CACHE_HOME'] = os.path.join(main_cache, 'scratch_first')
    try:
        col.count('monitor_first_selection_probes')
        m0, s0 = select(cs, col, dict(probe='first'), timeout=10, cache=True, label='first_of_process')
        if m0 is None:
            return
        check_working(m0, cs, col, dict(probe='first'), 'first_of_process')
        first = (coding(m0, cs, -1), s0._last_selection_stage)
        fr = []
        for _rep in range(2):
            m7, s7 = select(cs, col, dict(probe='first'), timeout=10, cache=False, label='fresh_after_first')
            if m7 is None:
                return
            fr.append((coding(m7, cs, -1), s7._last_selection_stage))
        if fr[0] == fr[1] and fr[0][1] == '0_pattern' and first != fr[0]:
            col.violation('cached_result_differs_from_fresh_computation', cs,
                          {'cached': first[0], 'cached_stage': first[1], 'fresh_twice': fr[0][0], 'fresh_stage': fr[0][1],
                           'first_selection_of_process': True}, [],
                          where={'same_encoder': first[0]['encoder'] == fr[0][0]['encoder'],
                                 'via': 'first_selection_of_process'})
    finally:
        os.environ['XDG_CACHE_HOME'] = main_cache


def phase_a(task, col):
    from adsg_core.optimization.assign_enc.selector import EncoderSelector
    import adsg_core.optimization.assign_enc.matrix as mx
    out = {}
    keys = {}
    if task['lo'] == 0 or task.get('shard', 0) % 4 == 0:
        first_selection_probe(col, task.get('shard', 0) // 4 if task['lo'] != 0 else 0)
    for i in range(task['lo'], task['hi']):
        cs = gen_case(task['seed'], i)
        col.evaluations += 1
        try:
            refs = [R.settings_matrices(cs, p) for p in (cs['patterns'] if cs.get('patterns') is not None else [None])]
        except OverflowError:
            continue
        if max(len(r) for r in refs) > 300:
            col.count('skipped_too_many_matrices')
            continue
        # cache keys (injectivity is judged by the parent over all settings of the run)
        rnd = gen.rng_for('c12near', task['seed'], i)
        for variant in [cs] + near_pairs(cs, rnd):
            try:
                k = B.make_settings(variant).get_cache_key()
                keys.setdefault(k, set()).add(canonical_settings(variant))
                col.count('monitor_cache_key_evaluations')
            except Exception:  # noqa
                pass
        where = {}
        # cold, generous limit
        EncoderSelector.encoding_timeout = 10
        t0 = time.time()
        mgr, sel = select(cs, col, where, timeout=10, label='cold')
        if mgr is None:
            continue
        check_working(mgr, cs, col, where, 'cold')
        rec = {'cold': coding(mgr, cs, i)}
        # warm in the same process
        mgr2, _ = select(cs, col, where, timeout=10, label='warm')
        if mgr2 is not None:
            rec['warm'] = coding(mgr2, cs, i)
            if rec['warm'] != rec['cold']:
                col.violation('warm_cache_result_differs', cs, {'cold': rec['cold'], 'warm': rec['warm']}, [])
        # every further selection runs on a scratch cache directory: get_best_assignment_manager(cache=False) only
        # bypasses *reading* and would overwrite the entry written by the cold selection above
        main_cache = os.environ.get('XDG_CACHE_HOME')
        os.environ['XDG_CACHE_HOME'] = os.path.join(main_cache, 'scratch')
        # the cached selection equals a freshly computed one in the same process.  Which candidate wins can depend on
        # machine load (time limits), so only a timing-independent disagreement is judged: two fresh selections agree
        # on a pattern encoder (stage 0, no time-limited scoring involved) while the cold selection skipped that stage
        cold_stage = sel._last_selection_stage if mgr is not None else None
        if (i % 2) == 0 or i == task['lo']:
            fr = []
            for _rep in range(2):
                m7, s7 = select(cs, col, dict(repeat='fresh'), timeout=10, cache=False, label='fresh_repeat')
                if m7 is None:
                    break
                fr.append((coding(m7, cs, i), s7._last_selection_stage))
            col.count('monitor_fresh_repeat_evaluations')
            if len(fr) == 2 and fr[0] == fr[1] and fr[0][1] == '0_pattern' and cold_stage not in (None, '0_pattern') \
                    and fr[0][0]['encoder'] != rec['cold']['encoder']:
                col.violation('cached_result_differs_from_fresh_computation', cs,
                              {'cached': rec['cold'], 'cached_stage': cold_stage, 'fresh_twice': fr[0][0],
                               'fresh_stage': fr[0][1], 'first_selection_of_process': i == task['lo']}, [],
                              where={'same_encoder': False, 'via': 'same_process_pattern_stage_skipped'})
        # tiny and default limits, cache bypassed (fresh computation)
        for to in (.25, .002):
            m3, _ = select(cs, col, dict(timeout=to), timeout=to, cache=False, label='limit_%s' % to)
            if m3 is not None:
                check_working(m3, cs, col, dict(timeout=to), 'limit_%s' % to)
        # injected candidate faults (cache bypassed)
        if (i % 3) == 0:
            for kind in ('pattern_and_eager_raise', 'lazy_raise', 'all_but_enum_raise', 'all_but_lazy_raise',
                         'only_lazy_conn_idx'):
                restore = inject_faults(kind)
                try:
                    m4, _ = select(cs, col, dict(fault=kind), timeout=10, cache=False, label='fault_' + kind)
                    col.count('monitor_fault_injections')
                    if m4 is not None:
                        check_working(m4, cs, col, dict(fault=kind), 'fault_' + kind)
                finally:
                    restore()
        if (i % 5) == 0:
            # virtual slowness: every candidate of every stage needs longer than the limit
            restore = inject_faults('all_slow')
            try:
                m5, _ = select(cs, col, dict(fault='all_slow'), timeout=.02, cache=False, label='all_slow')
                col.count('monitor_fault_injections')
                if m5 is not None:
                    check_working(m5, cs, col, dict(fault='all_slow'), 'all_slow')
            finally:
                restore()
        # entry-point order: a scenario-filtered matrix query issued first on a cold cache directory must not change
        # what selection (which reads the same on-disk matrix caches) sees afterwards
        pats_ = cs['patterns'] if cs.get('patterns') is not None else None
        if pats_ and len(pats_) > 1 and (i % 2) == 0:
            os.environ['XDG_CACHE_HOME'] = os.path.join(main_cache, 'scratch_order')
            try:
                g0 = mx.AggregateAssignmentMatrixGenerator(B.make_settings(cs))
                g0.reset_agg_matrix_cache()
                p0 = pats_[i % len(pats_)]
                n0 = sum(1 for _ in g0.iter_matrices(existence=B.make_existence(p0)))
                col.count('monitor_filtered_first_evaluations')
                if n0 != len(R.settings_matrices(cs, p0)):
                    col.violation('matrix_cache_result_differs', cs, {'pattern': p0, 'n_ref': len(R.settings_matrices(cs, p0)),
                                                                      'n_got': n0, 'via': 'filtered_first_query'}, [])
                m6, _ = select(cs, col, dict(order='filtered_first'), timeout=10, cache=True, label='filtered_first')
                if m6 is not None:
                    check_working(m6, cs, col, dict(order='filtered_first'), 'filtered_first')
                agg6 = mx.AggregateAssignmentMatrixGenerator(B.make_settings(cs)).get_agg_matrix(cache=True)
                for p, ref in zip(pats_, refs):
                    arr = agg6.get(B.make_existence(p))
                    got = set() if arr is None else {tuple(tuple(int(v) for v in row) for row in m) for m in arr}
                    if got != set(ref):
                        col.violation('matrix_cache_result_differs', cs, {'pattern': p, 'n_ref': len(ref),
                                                                          'n_got': len(got),
                                                                          'via': 'after_filtered_first_query'}, [])
                        break
                g0.reset_agg_matrix_cache()
            except Exception as e:  # noqa
                info = D.exc_info(e)
                col.violation('selection_failed', cs, {'exc': info, 'via': 'filtered_first'}, [],
                              where={'exc': info['type'], 'site': info['site'], 'via': 'filtered_first'})
        os.environ['XDG_CACHE_HOME'] = main_cache
        # matrix cache: cold/warm aggregate matrices equal the reference
        g = mx.AggregateAssignmentMatrixGenerator(B.make_settings(cs))
        agg = g.get_agg_matrix(cache=True)
        for p, ref in zip(cs['patterns'] if cs.get('patterns') is not None else [None], refs):
            ex = B.make_existence(p) if p is not None else mx.NodeExistence()
            got = {tuple(tuple(int(v) for v in row) for row in m) for m in agg[ex]}
            if got != set(ref):
                col.violation('matrix_cache_result_differs', cs, {'pattern': p, 'n_ref': len(ref), 'n_got': len(got),
                                                                  'via': 'same_process'}, [])
        out[str(i)] = rec
        if len(col.samples) < 2 and max(len(r) for r in refs) >= 2:
            col.sample({'settings': cs, 'selected': rec['cold']['encoder'], 'dvs': rec['cold']['dvs'],
                        'matrices_per_pattern': [len(r) for r in refs]})
        if max(len(r) for r in refs) >= 2:
            col.nontrivial.add(S.digest(cs))
    col.samples.append({'__a__': out, '__keys__': {k: sorted(v) for k, v in keys.items()}})


def phase_b(task, col):
    """another process on the cache directory written by phase A"""
    from adsg_core.optimization.assign_enc.selector import EncoderSelector
    import adsg_core.optimization.assign_enc.matrix as mx
    out = {}
    for i in range(task['lo'], task['hi']):
        cs = gen_case(task['seed'], i)
        try:
            refs = [R.settings_matrices(cs, p) for p in (cs['patterns'] if cs.get('patterns') is not None else [None])]
        except OverflowError:
            continue
        if max(len(r) for r in refs) > 300:
            continue
        col.evaluations += 1
        sel = EncoderSelector(B.make_settings(cs))
        path = sel._cache_path('%s.pkl' % sel._get_cache_key())
        had_cache = os.path.exists(path)
        col.count('foreign_cache_present' if had_cache else 'foreign_cache_absent')
        mgr, _ = select(cs, col, {}, timeout=10, label='foreign')
        if mgr is None:
            continue
        rec = {'foreign': coding(mgr, cs, i)}
        check_working(mgr, cs, col, {}, 'foreign')
        main_cache = os.environ.get('XDG_CACHE_HOME')
        os.environ['XDG_CACHE_HOME'] = os.path.join(main_cache, 'scratch_b')
        fresh, _ = select(cs, col, {}, timeout=10, cache=False, label='fresh_other_process')
        os.environ['XDG_CACHE_HOME'] = main_cache
        if fresh is not None:
            rec['fresh'] = coding(fresh, cs, i)
        g = mx.AggregateAssignmentMatrixGenerator(B.make_settings(cs))
        agg = g.get_agg_matrix(cache=True)
        for p, ref in zip(cs['patterns'] if cs.get('patterns') is not None else [None], refs):
            ex = B.make_existence(p) if p is not None else mx.NodeExistence()
            got = {tuple(tuple(int(v) for v in row) for row in m) for m in agg[ex]}
            col.count('monitor_foreign_matrix_cache_evaluations')
            if got != set(ref):
                col.violation('matrix_cache_result_differs', cs, {'pattern': p, 'n_ref': len(ref), 'n_got': len(got),
                                                                  'via': 'other_process'}, [])
        out[str(i)] = rec
    col.samples.append({'__b__': out})


def large_case(task, col):
    """Settings with more connection sets than the eager limit (1000), which take the selector into its later stages
    ('3_all', enumerating encoders).  Too large for the brute-force reference: the oracle for a decoded matrix is the
    library's own validate_matrix (decided by C09), plus range, fixed point and no exception."""
    import adsg_core.optimization.assign_enc.matrix as mx
    from adsg_core.optimization.assign_enc.selector import EncoderSelector
    which = task['which']
    rnd = gen.rng_for('c12large', task['seed'], which)
    if which % 3 == 0:      # derangements of 7: one-to-one, diagonal excluded (1854 sets)
        n_ = 7
        src = [mx.Node([1], repeated_allowed=False) for _ in range(n_)]
        tgt = [mx.Node([1], repeated_allowed=False) for _ in range(n_)]
        settings = mx.MatrixGenSettings(src, tgt, excluded=[(src[i], tgt[i]) for i in range(n_)])
        name = 'derangements_7'
    elif which % 3 == 1:    # 4 optional-amount sources onto 4 single-connection targets (choose a source per target, 4^4..)
        src = [mx.Node(min_conn=0, repeated_allowed=False) for _ in range(5)]
        tgt = [mx.Node([1], repeated_allowed=False) for _ in range(5)]
        settings = mx.MatrixGenSettings(src, tgt)
        name = 'assign_5_to_5'
    else:                   # permutations of 6 with one excluded pair
        src = [mx.Node([1], repeated_allowed=False) for _ in range(6)]
        tgt = [mx.Node([1], repeated_allowed=False) for _ in range(6)]
        settings = mx.MatrixGenSettings(src, tgt, excluded=[(src[0], tgt[1])])
        name = 'permutations_6_excl'
    col.evaluations += 1
    col.count('monitor_large_settings')
    gen_ = mx.AggregateAssignmentMatrixGenerator(settings)
    spec_ = {'large': name}
    try:
        n_mat = gen_.count_all_matrices()
        sel = EncoderSelector(settings)
        sel.encoding_timeout = 60
        mgr = sel.get_best_assignment_manager(cache=True)
        col.count('large_stage_' + str(sel._last_selection_stage))
        mgr_warm = EncoderSelector(settings).get_best_assignment_manager(cache=True)
    except Exception as e:  # noqa
        info = D.exc_info(e)
        col.violation('selection_failed', spec_, {'exc': info, 'via': 'large'}, [],
                      where={'exc': info['type'], 'site': info['site'], 'via': 'large',
                             'starved': 'Cannot find best encoder' in info['msg']})
        return
    col.nontrivial.add('large|' + name)
    for label, m_ in (('cold', mgr), ('warm', mgr_warm)):
        dvs = [int(dv.n_opts) for dv in m_.design_vars]
        if [int(dv.n_opts) for dv in mgr.design_vars] != dvs:
            col.violation('cached_result_differs_from_fresh_computation', spec_, {'cold': str(mgr.encoder),
                                                                                  'warm': str(m_.encoder)}, [],
                          where={'same_encoder': str(mgr.encoder) == str(m_.encoder), 'via': 'large'})
        for _ in range(150):
            x = [rnd.randrange(n) for n in dvs]
            col.count('monitor_selected_coding_evaluations')
            try:
                x1, act, mat = m_.get_matrix(np.array(x, dtype=int))
                x1 = [int(v) for v in x1]
                bad = None
                if not gen_.validate_matrix(np.array(mat)):
                    bad = 'selected_coding_decodes_invalid_matrix'
                elif any(not (0 <= v < n) for v, n in zip(x1, dvs)):
                    bad = 'selected_coding_vector_out_of_range'
                else:
                    x2, _a2, mat2 = m_.get_matrix(np.array(x1, dtype=int))
                    if [int(v) for v in x2] != x1 or not np.array_equal(np.array(mat2), np.array(mat)):
                        bad = 'selected_coding_not_idempotent'
                if bad:
                    col.violation(bad, spec_, {'x': x, 'x1': x1, 'encoder': str(m_.encoder), 'via': 'large_' + label,
                                               'n_matrices': int(n_mat)}, [],
                                  where={'encoder': type(m_.encoder).__name__, 'via': 'large'})
                    return
            except Exception as e:  # noqa
                info = D.exc_info(e)
                col.violation('selected_coding_exception', spec_, {'x': x, 'exc': info, 'encoder': str(m_.encoder),
                                                                   'via': 'large_' + label, 'n_matrices': int(n_mat)}, [],
                              where={'exc': info['type'], 'site': info['site'], 'encoder': type(m_.encoder).__name__,
                                     'via': 'large'})
                return


def family_settings(quick):
    """Deterministic family of nearly degenerate settings: one open-ended node against 2-3 (almost) pinned ones.  They
    have a handful of connection sets, and several candidate codings recognise the shape but end up with a one-valued
    variable and reject the settings -- selection has to skip those candidates."""
    degs = [[1], [0, 1]] if quick else [[1], [0, 1], [2], [1, 2]]
    reps = [(False, False), (True, True)] if quick else [(False, False), (True, True), (True, False), (False, True)]
    out = []
    for mn in (0, 1):
        for k in (2, 3):
            for combo in itertools.product(degs, repeat=k):
                for rep1, repm in reps:
                    for transposed in (False, True):
                        one = [{'deg': {'min': mn}, 'rep': rep1}]
                        many = [{'deg': {'list': list(c)}, 'rep': repm} for c in combo]
                        out.append({'src': many if transposed else one, 'tgt': one if transposed else many,
                                    'excluded': [], 'patterns': None, 'max_conn_parallel': None})
    return out


def override_family(col):
    """Scenarios in which the same connectors exist and only a degree override differs, selected with the candidate
    faults that leave only lazy encoders (their imputers memoise per scenario): the coding must work for each scenario,
    whichever was decoded first on the manager."""
    fam = []
    for deg in ({'min': 0, 'max': 2}, {'list': [0, 1, 2]}, {'min': 0, 'max': 1}):
        for ov_side, ov in (('src', [2]), ('src', [1]), ('tgt', [1, 2]), ('tgt', [0])):
            cs = {'src': [{'deg': dict(deg), 'rep': True}, {'deg': dict(deg), 'rep': False}],
                  'tgt': [{'deg': dict(deg), 'rep': True}, {'deg': {'min': 0, 'max': 2}, 'rep': False}],
                  'excluded': [], 'max_conn_parallel': None,
                  'patterns': [{'src_exists': [True, True], 'tgt_exists': [True, True], 'src_override': {}, 'tgt_override': {}},
                               {'src_exists': [True, True], 'tgt_exists': [True, True], 'src_override': {}, 'tgt_override': {}}]}
            cs['patterns'][1][ov_side + '_override'] = {'0': list(ov)}
            fam.append(cs)
    for cs in fam:
        for kind in ('all_but_lazy_raise', 'only_lazy_conn_idx'):
            restore = inject_faults(kind)
            try:
                col.evaluations += 1
                col.count('monitor_override_family_selections')
                m, _ = select(cs, col, dict(fault=kind, family='override'), timeout=10, cache=False, label='fault_' + kind)
                if m is not None:
                    check_working(m, cs, col, dict(fault=kind, family='override'), 'fault_' + kind)
            finally:
                restore()


def family_case(task, col):
    if task['which'] == 0:
        common.guard(col, override_family, col)
    fam = family_settings(task['quick'])
    for j in range(task['which'], len(fam), task['of']):
        cs = fam[j]
        col.evaluations += 1
        col.count('monitor_family_selections')
        mgr, _ = select(cs, col, {'family': True}, timeout=10, cache=False, label='family')
        if mgr is not None:
            check_working(mgr, cs, col, {'family': True}, 'family')
            col.sample({'family': j, 'encoder': type(mgr.encoder).__name__,
                        'n_dv': len(mgr.design_vars)}) if j < 3 else None


def worker(task, col):
    from adsg_core.optimization.assign_enc.selector import EncoderSelector
    M.Tap(EncoderSelector, 'get_best_assignment_manager', counter=col.count)
    if task.get('kind') == 'large':
        large_case(task, col)
        return
    if task.get('kind') == 'family':
        family_case(task, col)
        return
    if task.get('replay'):
        v = task['replay']['violation']
        cs = v['spec']
        mgr, _ = select(cs, col, {}, timeout=10, cache=False, label='replay')
        if mgr is not None:
            check_working(mgr, cs, col, {}, 'replay')
        w = v.get('where', {})
        if w.get('fault'):
            restore = inject_faults(w['fault'])
            try:
                m, _ = select(cs, col, dict(fault=w['fault']), timeout=.02 if w['fault'] == 'all_slow' else 10,
                              cache=False, label=w['fault'])
                if m is not None:
                    check_working(m, cs, col, dict(fault=w['fault']), w['fault'])
            finally:
                restore()
        return
    if task['kind'] == 'a':
        phase_a(task, col)
    else:
        phase_b(task, col)


def main(run):
    if run.replay:
        run.map([{'replay': common.load_replay(run.replay), 'kind': 'replay'}])
        run.finish('replay', min_nontrivial=0)
    quick = run.tier == 'quick'
    n = 96 if quick else 1600
    shards = common.shard_tasks(n, run.jobs)
    dirs = [tempfile.mkdtemp(prefix='vfc12_') for _ in shards]
    extra = {}
    try:
        ta = []
        for t, d in zip(shards, dirs):
            ta.append(dict(t, kind='a', _cache_dir=d))
        for k in range(3 if quick else 6):
            ta.append({'kind': 'large', 'which': k, 'shard': 9000 + k, 'lo': 0, 'hi': 0, 'seed': run.seed})
        nf = 2 if quick else 8
        for k in range(nf):
            ta.append({'kind': 'family', 'which': k, 'of': nf, 'quick': quick, 'shard': 9100 + k, 'lo': 0, 'hi': 0,
                       'seed': run.seed})
        run.map(ta, timeout=3400)
        tb = []
        for t, d in zip(shards, dirs):
            tb.append(dict(t, kind='b', _cache_dir=d, _hashseed='7'))
        run.map(tb, timeout=3400)
    finally:
        for d in dirs:
            shutil.rmtree(d, ignore_errors=True)
    a, b_, keys = {}, {}, {}
    for r in run.results:
        keep = []
        for s in r.get('samples', []):
            if isinstance(s, dict) and '__a__' in s:
                a.update(s['__a__'])
                for k, v in s['__keys__'].items():
                    keys.setdefault(k, set()).update(v)
            elif isinstance(s, dict) and '__b__' in s:
                b_.update(s['__b__'])
            else:
                keep.append(s)
        r['samples'] = keep
    viols = []
    n_cmp = 0
    n_other_encoder = 0
    for i, rec in b_.items():
        cold = a.get(i, {}).get('cold')
        if cold is None:
            continue
        n_cmp += 1
        cs = gen_case(run.seed, int(i))
        if rec['foreign'] != cold:
            viols.append({'symptom': 'foreign_cache_result_differs', 'spec': cs, 'flags': [], 'where': {},
                          'detail': {'written': cold, 'loaded_in_other_process': rec['foreign']}})
        if 'fresh' in rec and rec['fresh']['encoder'] != cold['encoder']:
            # which encoder wins depends on which candidates (and their distance-correlation estimates) finish within
            # the time limit, i.e. on machine load: a different winner in the other process says nothing about the
            # cache; both codings are checked against the brute force on their own
            n_other_encoder += 1
        elif 'fresh' in rec and (rec['fresh']['dvs'] != cold['dvs'] or rec['fresh']['table'] != cold['table']):
            viols.append({'symptom': 'cached_result_differs_from_fresh_computation', 'spec': cs, 'flags': [],
                          'where': {'same_encoder': rec['fresh']['encoder'] == cold['encoder']},
                          'detail': {'cached': cold, 'fresh_in_other_process': rec['fresh']}})
    n_keys = len(keys)
    for k, canon in keys.items():
        if len(canon) > 1:
            viols.append({'symptom': 'cache_key_collision', 'spec': {'settings': sorted(canon)[:2]}, 'flags': [],
                          'where': {}, 'detail': {'key': k, 'n_settings': len(canon)}})
    run.results.append({'evaluations': 0, 'violations': viols, 'nontrivial': [],
                        'counters': {'monitor_cross_process_comparisons': n_cmp, 'distinct_cache_keys': n_keys,
                                     'fresh_selection_chose_other_encoder': n_other_encoder}})
    run.finish('generated connector settings (incl. degenerate ones with <=1 connection set and classic patterns): '
               'EncoderSelector with cold / warm cache in one process and, in a second process on the same cache '
               'directory, the cached selection vs a fresh selection with caches bypassed; encoding_timeout in {10 s, '
               '0.25 s, 2 ms}; injected candidate faults (pattern+eager raise, lazy raise, all but enumerating raise, '
               'all but lazy raise, only lazy connection-index left, every candidate slower than the limit); a '
               'scenario-filtered matrix query first on a cold cache, then selection; every returned coding checked against the brute-force matrix '
               'sets; cache keys of all settings and adversarial near-pairs compared for collisions; non-trivial = '
               'settings with a pattern of >=2 matrices',
               min_nontrivial=10, deciding=['monitor_selection_evaluations', 'monitor_selected_coding_evaluations',
                                            'monitor_cross_process_comparisons', 'monitor_cache_key_evaluations'],
               extra_cov={'cross_process_codings_compared': n_cmp, 'distinct_cache_keys': n_keys},
               assumptions=['only the installed numeric stack can be executed (numpy 1.26 / pandas 3.0 / numba 0.67)',
                            'corrupted cache files are outside the quantifier (no crash points) and not judged'])
