"""C10: every registered connection encoder x imputer is a faithful, total and onto coding of connection sets."""
import time
import itertools
import numpy as np
from .. import gen, spec as S, build as B, refmodel as R, drive as D, monitor as M
from . import common


def factories(rot=None, frac=4):
    """(group, index, encoder factory, imputer factory, imputer label).  Always: every registered encoder with its
    default imputer and every imputer with two representative encoders.  The rest of the encoder x imputer cross
    product rotates with the case number `rot` (a 1/frac share per case; rot=None: all of it, used by replays)."""
    import adsg_core.optimization.assign_enc.encoder_registry as reg
    out = []
    for grp, lst, imp in (('eager', reg.EAGER_ENCODERS, reg.DEFAULT_EAGER_IMPUTER),
                          ('lazy', reg.LAZY_ENCODERS, reg.DEFAULT_LAZY_IMPUTER),
                          ('enum', reg.EAGER_ENUM_ENCODERS, reg.DEFAULT_LAZY_IMPUTER),
                          ('pattern', reg.PATTERN_ENCODERS, reg.DEFAULT_LAZY_IMPUTER)):
        for i, f in enumerate(lst):
            out.append((grp, i, f, imp, 'default'))
    # every imputer with one representative encoder of its family
    for j, imp in enumerate(reg.EAGER_IMPUTERS):
        out.append(('eager', 0, reg.EAGER_ENCODERS[0], imp, 'imp%d' % j))
        out.append(('eager', 2, reg.EAGER_ENCODERS[2], imp, 'imp%d' % j))
    for j, imp in enumerate(reg.LAZY_IMPUTERS):
        out.append(('lazy', 0, reg.LAZY_ENCODERS[0], imp, 'imp%d' % j))
        out.append(('lazy', 3, reg.LAZY_ENCODERS[3], imp, 'imp%d' % j))
    have = {(g, i, n) for g, i, _f, _i, n in out}
    for grp, encs, imps in (('eager', reg.EAGER_ENCODERS, reg.EAGER_IMPUTERS), ('lazy', reg.LAZY_ENCODERS, reg.LAZY_IMPUTERS)):
        for i, f in enumerate(encs):
            for j, imp in enumerate(imps):
                if (grp, i, 'imp%d' % j) in have:
                    continue
                if rot is None or (rot + i * 3 + j) % frac == 0:
                    out.append((grp, i, f, imp, 'imp%d' % j))
    return out


def mat_t(m):
    return tuple(tuple(int(v) for v in row) for row in m)


def check_settings(cs, col, fsel=None, cap=250, budget=6.0, groups=None, rot=0, frac=4):
    import adsg_core.optimization.assign_enc.matrix as mx
    from adsg_core.optimization.assign_enc.lazy_encoding import LazyEncoder
    from adsg_core.optimization.assign_enc.assignment_manager import AssignmentManager, LazyAssignmentManager
    from adsg_core.optimization.assign_enc.patterns.encoder import InvalidPatternEncoder
    from adsg_core.optimization.assign_enc.encoding import DetectedHighImpRatio
    col.evaluations += 1
    pats = cs['patterns'] if cs.get('patterns') is not None else [None]
    refs = [set(R.settings_matrices(cs, p)) for p in pats]
    if sum(len(r) for r in refs) == 0:
        col.count('settings_without_any_matrix')
    if max([len(r) for r in refs] + [0]) > 400:
        col.count('skipped_too_many_matrices')
        return
    nontrivial = False
    for grp, idx, fac, imp, imp_name in factories(None if fsel is not None else rot, frac):
        if fsel is not None and (grp, idx, imp_name) != tuple(fsel):
            continue
        if groups is not None and grp not in groups:
            continue
        try:
            with common.time_limit(budget * 2.5):
                if _one_factory(cs, col, pats, refs, grp, idx, fac, imp, imp_name, cap, budget):
                    nontrivial = True
        except common.HarnessTimeout:
            col.count('factory_time_budget_exceeded')
    if nontrivial:
        col.nontrivial.add(S.digest(cs))
        if len(col.samples) < 2:
            col.sample({'settings': cs, 'matrices_per_pattern': [len(r) for r in refs]})


def _one_factory(cs, col, pats, refs, grp, idx, fac, imp, imp_name, cap, budget):
    import adsg_core.optimization.assign_enc.matrix as mx
    from adsg_core.optimization.assign_enc.lazy_encoding import LazyEncoder
    from adsg_core.optimization.assign_enc.assignment_manager import AssignmentManager, LazyAssignmentManager
    from adsg_core.optimization.assign_enc.patterns.encoder import InvalidPatternEncoder
    from adsg_core.optimization.assign_enc.encoding import DetectedHighImpRatio
    nontrivial = False
    for _once in (1,):
        settings = B.make_settings(cs)
        t_fac = time.time()
        encoder = fac(imp())
        enc_name = '%s:%s' % (grp, repr(encoder))
        where = {'group': grp, 'encoder': type(encoder).__name__, 'imputer': type(imp()).__name__}
        is_cv = 'ConstraintViolation' in where['imputer']
        try:
            cls = LazyAssignmentManager if isinstance(encoder, LazyEncoder) else AssignmentManager
            mgr = cls(settings, encoder)
            dvs = mgr.design_vars
        except (InvalidPatternEncoder, DetectedHighImpRatio):
            col.count('refused_documented')
            continue
        except Exception as e:  # noqa
            info = D.exc_info(e)
            w = dict(where)
            w.update(exc=info['type'], site=info['site'])
            col.violation('encoder_construct_exception', cs, {'encoder': enc_name, 'exc': info}, [], where=w,
                          factory=[grp, idx, imp_name])
            continue
        col.count('managers_built')
        n_opts = [dv.n_opts for dv in dvs]
        used_values = [set() for _ in dvs]
        listed_all = None
        try:
            if time.time() - t_fac < budget / 2:
                listed_all = mgr.get_all_design_vectors()
            else:
                col.count('listing_skipped_time_budget')
        except Exception as e:  # noqa
            info = D.exc_info(e)
            w = dict(where)
            w.update(exc=info['type'])
            col.violation('all_design_vectors_exception', cs, {'encoder': enc_name, 'exc': info}, [], where=w,
                          factory=[grp, idx, imp_name])
        failed = False
        for p, ref in zip(pats, refs):
            if not ref or failed:
                continue
            existence = B.make_existence(p) if p is not None else mx.NodeExistence()
            space = 1
            for n in n_opts:
                space *= n
            if space <= cap:
                vecs = [list(v) for v in itertools.product(*[range(n) for n in n_opts])]
                exhaustive = True
            else:
                rnd = gen.rng_for('c10vec', S.digest(cs), enc_name, S.canon(p))
                vecs = [[rnd.randrange(n) for n in n_opts] for _ in range(cap)]
                exhaustive = False
            hostile = []
            if n_opts:
                hostile = [[n + 3 for n in n_opts], [-1] * len(n_opts), [0] * len(n_opts) + [1, 2],
                           [n - 1 for n in n_opts] + [0], [-2] * len(n_opts),
                           [-3 if k % 2 == 0 else 0 for k in range(len(n_opts))],
                           [0 if k % 2 == 0 else -2 for k in range(len(n_opts))]]
            else:
                hostile = [[1, 0], [-2]]
            table = {}
            image = set()
            for x in vecs + hostile:
                if time.time() - t_fac > budget:
                    col.count('factory_time_budget_exceeded')   # not a verdict: the rest of this factory is skipped
                    failed = True
                    break
                col.count('monitor_get_matrix_evaluations')
                try:
                    x1, act, Mx = mgr.get_matrix(np.array(x, dtype=int), existence=existence)
                except Exception as e:  # noqa
                    info = D.exc_info(e)
                    w = dict(where)
                    w.update(exc=info['type'], site=info['site'])
                    col.violation('get_matrix_exception', cs, {'encoder': enc_name, 'pattern': p, 'x': x,
                                                               'exc': info}, [], where=w, factory=[grp, idx, imp_name])
                    failed = True
                    break
                x1 = [int(v) for v in x1]
                act = [bool(v) for v in act]
                mt = mat_t(Mx)
                if is_cv and any(v < 0 for row in mt for v in row):
                    col.count('constraint_violation_marker')
                    try:
                        _, _, edges = mgr.get_conn_idx(np.array(x, dtype=int), existence=existence)
                        if edges is not None:
                            col.violation('violation_marker_but_edges', cs, {'encoder': enc_name, 'x': x}, [],
                                          where=where, factory=[grp, idx, imp_name])
                    except Exception:  # noqa
                        pass
                    continue
                n_decl = len(n_opts)
                x1c = x1[:n_decl]
                bad = None
                if mt not in ref:
                    bad = ('decoded_matrix_invalid', {'matrix': mt})
                elif len(x1) < n_decl or any(not (0 <= v < n_opts[i]) for i, v in enumerate(x1c)):
                    bad = ('corrected_vector_out_of_range', {'x1': x1, 'n_opts': n_opts})
                elif len(x1) != len(act):
                    bad = ('vector_activeness_length_mismatch', {'x1': x1, 'act': act})
                elif any((not a) and v != 0 for v, a in zip(x1, act)):
                    bad = ('inactive_not_zero', {'x1': x1, 'act': act})
                elif any(a for a in act[n_decl:]) or any(v != 0 for v in x1[n_decl:]):
                    bad = ('extra_entries_not_inactive', {'x1': x1, 'act': act})
                if bad is None:
                    try:
                        x2, act2, M2 = mgr.get_matrix(np.array(x1c, dtype=int), existence=existence)
                        x2, act2 = [int(v) for v in x2][:n_decl], [bool(v) for v in act2][:n_decl]
                        if x2 != x1c or mat_t(M2) != mt:
                            bad = ('redecode_differs', {'x1': x1c, 'x2': x2, 'same_matrix': mat_t(M2) == mt})
                        elif act2 != act[:n_decl]:
                            bad = ('redecode_activeness_differs', {'x1': x1c, 'act1': act[:n_decl], 'act2': act2})
                    except Exception as e:  # noqa
                        bad = ('redecode_exception', {'x1': x1c, 'exc': D.exc_info(e)})
                if bad is None:
                    prev = table.setdefault(tuple(x1c), mt)
                    if prev != mt:
                        bad = ('same_vector_different_matrices', {'x1': x1c})
                if bad is not None:
                    col.violation(bad[0], cs, dict(bad[1], encoder=enc_name, pattern=p, x=x), [], where=where,
                                  factory=[grp, idx, imp_name])
                    failed = True
                    break
                image.add(mt)
                for i, (v, a) in enumerate(zip(x1c, act)):
                    if a:
                        used_values[i].add(v)
            if failed:
                continue
            if len(ref) >= 2:
                nontrivial = True
            if exhaustive and image != ref:
                col.violation('not_onto', cs, {'encoder': enc_name, 'pattern': p, 'n_ref': len(ref),
                                               'n_image': len(image), 'missing': sorted(ref - image)[:2]}, [],
                              where=where, factory=[grp, idx, imp_name])
            if listed_all is not None:
                lst = listed_all.get(existence)
                if lst is None:
                    col.violation('pattern_missing_from_listed_vectors', cs, {'encoder': enc_name, 'pattern': p}, [],
                                  where=where, factory=[grp, idx, imp_name])
                else:
                    lst = np.array(lst)
                    col.count('monitor_listed_vector_evaluations')
                    if lst.ndim != 2 or lst.shape[1] != len(n_opts):
                        if not (lst.size == 0 and len(ref) <= 1 and len(n_opts) == 0) and \
                                not (len(n_opts) == 0 and lst.shape[0] <= 1):
                            col.violation('listed_vectors_wrong_width', cs,
                                          {'encoder': enc_name, 'pattern': p, 'shape': list(lst.shape),
                                           'n_design_vars': len(n_opts)}, [], where=where,
                                          factory=[grp, idx, imp_name])
                    elif exhaustive:
                        listed = {tuple(int(max(v, 0)) for v in row) for row in lst}
                        if len(n_opts) == 0:
                            listed = {()} if len(lst) else set()
                        if listed != set(table):
                            col.violation('listed_vectors_differ_from_corrected_vectors', cs,
                                          {'encoder': enc_name, 'pattern': p, 'only_listed': sorted(listed - set(table))[:3],
                                           'only_decoded': sorted(set(table) - listed)[:3]}, [], where=where,
                                          factory=[grp, idx, imp_name])
        if not failed and listed_all is not None and n_opts:
            vals = [set() for _ in n_opts]
            for p, ref in zip(pats, refs):
                existence = B.make_existence(p) if p is not None else mx.NodeExistence()
                lst = listed_all.get(existence)
                if lst is None:
                    continue
                lst = np.array(lst)
                if lst.ndim == 2 and lst.shape[1] == len(n_opts):
                    for row in lst:
                        for i, v in enumerate(row):
                            if v >= 0:
                                vals[i].add(int(v))
            for i, vs in enumerate(vals):
                if len(vs) < 2:
                    col.violation('variable_with_fewer_than_two_used_values', cs,
                                  {'encoder': enc_name, 'var': i, 'values': sorted(vs), 'n_opts': n_opts}, [],
                                  where=where, factory=[grp, idx, imp_name])
                    break
    return nontrivial


def gen_case(seed, i):
    rnd = gen.rng_for('C10', seed, i)
    r = rnd.random()
    if r < .35:
        return gen.gen_settings(rnd, n_src=(1, 2), n_tgt=(1, 3), p_patterns=.5, p_override=.15,
                                alphabet=gen.DEG_ALPHABET[:9], p_parallel=.1)
    if r < .7:
        return gen.gen_settings(rnd, n_src=(1, 3), n_tgt=(1, 2), p_patterns=.6, p_override=.2, p_parallel=.1)
    if r < .85:
        # classic patterns (combining / assigning / partitioning / permuting-like) so pattern encoders engage
        ns, nt = rnd.randint(1, 3), rnd.randint(2, 3)
        kind = rnd.choice(['combining', 'assigning', 'partitioning', 'connecting', 'permuting'])
        if kind == 'combining':
            src = [{'deg': {'list': [1]}, 'rep': False}]
            tgt = [{'deg': {'list': [0, 1]}, 'rep': False} for _ in range(nt)]
        elif kind == 'assigning':
            src = [{'deg': {'min': 0}, 'rep': False} for _ in range(ns)]
            tgt = [{'deg': {'min': 0}, 'rep': False} for _ in range(nt)]
        elif kind == 'partitioning':
            src = [{'deg': {'min': 0}, 'rep': False} for _ in range(ns)]
            tgt = [{'deg': {'list': [1]}, 'rep': False} for _ in range(nt)]
        elif kind == 'connecting':
            src = [{'deg': {'min': 0}, 'rep': False} for _ in range(nt)]
            tgt = [{'deg': {'min': 0}, 'rep': False} for _ in range(nt)]
        else:
            src = [{'deg': {'list': [1]}, 'rep': False} for _ in range(nt)]
            tgt = [{'deg': {'list': [1]}, 'rep': False} for _ in range(nt)]
        cs = {'src': src, 'tgt': tgt, 'excluded': [], 'patterns': None, 'max_conn_parallel': None}
        if kind == 'connecting':
            cs['excluded'] = [[i, i] for i in range(nt)]
        if rnd.random() < .4:
            cs['patterns'] = [{'src_exists': [True] * len(src), 'tgt_exists': [True] * len(tgt)},
                              {'src_exists': [True] * len(src), 'tgt_exists': [rnd.random() < .6 for _ in tgt]}]
            if gen.pattern_key(cs['patterns'][0]) == gen.pattern_key(cs['patterns'][1]):
                cs['patterns'] = cs['patterns'][:1]
        return cs
    return gen.gen_settings(rnd, n_src=(2, 3), n_tgt=(2, 3), p_patterns=.7, alphabet=gen.DEG_ALPHABET[:6])


def classic_family(quick):
    """Deterministic family of the textbook assignment patterns the pattern encoders are written for, with the
    parameters the random classes rarely hit: minimum amounts of 0..2 (3) per open-ended node, 2..4 (5) nodes on the other
    side that take exactly one / at most one connection, both orientations."""
    out = []
    mins = (0, 1, 2) if quick else (0, 1, 2, 3)
    for kind in ('partitioning', 'assigning', 'combining'):
        for ns in (1, 2):
            for nt in ((2, 3, 4) if quick else (2, 3, 4, 5)):
                for mn in mins:
                    for other in ([1], [0, 1]):
                        if kind == 'partitioning':
                            if ns * mn > nt:
                                continue
                            src = [{'deg': {'min': mn}, 'rep': False} for _ in range(ns)]
                            tgt = [{'deg': {'list': list(other)}, 'rep': False} for _ in range(nt)]
                        elif kind == 'assigning':
                            if other == [1] or nt > 3:
                                continue
                            src = [{'deg': {'min': mn}, 'rep': False} for _ in range(ns)]
                            tgt = [{'deg': {'min': 0}, 'rep': False} for _ in range(nt)]
                        else:
                            if ns > 1 or mn == 0 or mn > nt:
                                continue
                            src = [{'deg': {'list': [mn]}, 'rep': False}]
                            tgt = [{'deg': {'list': list(other)}, 'rep': False} for _ in range(nt)]
                        for transposed in (False, True):
                            out.append({'src': tgt if transposed else src, 'tgt': src if transposed else tgt,
                                        'excluded': [], 'patterns': None, 'max_conn_parallel': None})
    return out


def family_task(task, col):
    fam = classic_family(task['quick'])
    for j in range(task['which'], len(fam), task['of']):
        col.count('monitor_classic_family_settings')
        common.guard(col, check_settings, fam[j], col, cap=600, groups=('pattern',))


def worker(task, col):
    from adsg_core.optimization.assign_enc.assignment_manager import AssignmentManager, LazyAssignmentManager
    M.Tap(AssignmentManager, 'get_matrix', counter=col.count)
    M.Tap(LazyAssignmentManager, 'get_matrix', counter=col.count)
    col.count('mode_' + task.get('mode', 'jit'))
    if task.get('replay'):
        v = task['replay']['violation']
        common.guard(col, check_settings, v['spec'], col, fsel=v.get('factory'), cap=600)
        return
    if task.get('kind') == 'family':
        family_task(task, col)
        return
    if task['shard'] == 0:
        for c in common.corpus('C10'):
            common.guard(col, check_settings, c['spec'], col, rot=None)   # corpus: the whole cross product
    for i in range(task['lo'], task['hi']):
        common.guard(col, check_settings, gen_case(task['seed'], i), col, cap=task.get('cap', 250), rot=i,
                     frac=task.get('frac', 4))


def main(run):
    if run.replay:
        run.map([{'replay': common.load_replay(run.replay), 'shard': 0}])
    else:
        if run.tier == 'quick':
            tasks = common.shard_tasks(48, run.jobs, cap=60)
        else:
            tasks = common.shard_tasks(1600, 32, cap=400, frac=2)
            for mode, env in (('boundscheck', {'NUMBA_BOUNDSCHECK': '1'}), ('nojit', {'NUMBA_DISABLE_JIT': '1'})):
                for t in common.shard_tasks(96, 8, cap=150):
                    t['_env'] = env
                    t['mode'] = mode
                    tasks.append(t)
        nf = 4 if run.tier == 'quick' else 8
        for k in range(nf):
            tasks.append({'kind': 'family', 'which': k, 'of': nf, 'quick': run.tier == 'quick', 'shard': 9100 + k,
                          'lo': 0, 'hi': 0, 'seed': run.seed})
        run.map(tasks, timeout=3400)
    run.finish('generated connector settings (<=3x3, existence patterns, overrides, classic assignment patterns) x '
               'every encoder factory of the registry with its default imputer + every imputer with two representative '
               'encoders; per pattern with >=1 valid matrix: full declared vector space (or seeded sample) + '
               'out-of-range / negative / over-long vectors; oracle = brute-force matrix set; non-trivial = a '
               'pattern with >=2 valid matrices',
               min_nontrivial=10, deciding=['monitor_get_matrix_evaluations', 'managers_built'],
               assumptions=['constraint-violation imputers are documented to return a -1 matrix instead of imputing',
                            'InvalidPatternEncoder / DetectedHighImpRatio are documented refusals'])
