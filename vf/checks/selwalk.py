"""C02 / C06: walk the real graph API taking every active selection choice with every option in every
order; compare every leaf and the set of feasible leaves with the reference closure semantics."""
import itertools
from .. import gen, spec as S, build as B, observe as O, refmodel as R, drive as D, monitor as M
from . import common

_X = dict(p_opt_existing=.4, p_multi_choice=.3)
PROFILES = {
    'C02': [
        ('main', .33, dict(p_incompat=.4)),
        ('merge_back', .12, dict(p_incompat=.5, p_merge=.35, p_merge_back=.5, p_edges_late=.6, n_steps=(5, 12))),
        ('shared_option', .1, dict(allow=('shared_option',), p_incompat=.3, **_X)),
        ('opt_derived_by_origin', .07, dict(allow=('opt_derived_by_origin',), p_incompat=.3, **_X)),
        ('opt_is_permanent', .07, dict(allow=('opt_is_permanent', 'opt_derived_by_origin'), p_incompat=.3, **_X)),
        ('choice_loop', .08, dict(allow=('choice_loop', 'opt_derives_origin'), p_incompat=.3, p_cycle=.3, **_X)),
        ('incompat_self', .06, dict(allow=('incompat_self',), p_incompat=1., n_incompat=(1, 3))),
        ('unreachable', .09, dict(p_incompat=.3)),
        ('soup', .08, dict(exotic=True, p_incompat=.6, p_cycle=.25, **_X)),
    ],
    'C06': [
        ('main', .35, dict(p_incompat=1.0, n_incompat=(1, 3))),
        ('merge_back', .2, dict(p_incompat=1.0, n_incompat=(1, 3), p_merge=.35, p_merge_back=.5, p_edges_late=.6, n_steps=(5, 12))),
        ('shared_option', .12, dict(allow=('shared_option',), p_incompat=1., n_incompat=(1, 3), **_X)),
        ('opt_derived_by_origin', .06, dict(allow=('opt_derived_by_origin',), p_incompat=1., n_incompat=(1, 2), **_X)),
        ('opt_is_permanent', .06, dict(allow=('opt_is_permanent', 'opt_derived_by_origin'), p_incompat=1., **_X)),
        ('choice_loop', .06, dict(allow=('choice_loop', 'opt_derives_origin'), p_incompat=1., p_cycle=.3, **_X)),
        ('incompat_self', .09, dict(allow=('incompat_self',), p_incompat=1., n_incompat=(1, 3))),
        ('soup', .06, dict(exotic=True, p_incompat=1., n_incompat=(1, 3), p_cycle=.25, **_X)),
    ],
}


def case_spec(prop, seed, i):
    rnd = gen.rng_for(prop, seed, i)
    r = rnd.random()
    acc = 0
    if r > .95:
        return 'necessary_conflict', gen.gen_necessary_conflict(rnd)
    for name, w, kw in PROFILES[prop]:
        acc += w
        if r < acc:
            break
    sp = gen.gen_spec(rnd, **kw)
    if name == 'unreachable' or (name == 'soup' and rnd.random() < .3):
        # add an unreachable part: nodes (possibly a cycle with a choice) not derivable from the start nodes
        sp = add_unreachable(sp, rnd)
    return name, sp


def add_unreachable(sp, rnd):
    sp = S.normalize(sp)
    k = rnd.randint(1, 3)
    ids = ['U%d' % i for i in range(k)]
    for i in ids:
        sp['nodes'].append({'id': i, 'kind': 'named'})
    for a, b_ in zip(ids, ids[1:]):
        sp['edges'].append([a, b_])
    if rnd.random() < .6 and k > 1:
        sp['edges'].append([ids[-1], ids[0]])  # cycle
    named = [n['id'] for n in sp['nodes'] if n['kind'] == 'named' and not n['id'].startswith('U')]
    if rnd.random() < .7:
        sp['edges'].append([ids[-1], rnd.choice(named)])  # unreachable part points into the reachable graph
    if rnd.random() < .5:
        # an incompatibility constraint between a node of the reachable graph and one of the unreachable part
        sp['incompat'].append([rnd.choice(named), rnd.choice(ids)])
    if rnd.random() < .3:
        o = 'U%d' % k
        sp['nodes'].append({'id': o, 'kind': 'named'})
        sp['sel'].append({'key': 'CU', 'id': 'CU', 'origin': ids[0], 'options': [o, rnd.choice(named)]})
    sp['features'] = S.classify(sp)
    return sp


def check_case(prop, sp, col, shard_name='corpus', max_paths=3000):
    col.evaluations += 1
    col.count('cases_' + shard_name)
    flags = S.classify(S.normalize(sp))
    case = D.Case(sp)
    model, b = case.model, case.b
    if case.archs is None:
        col.count('skipped_ref_too_large')
        return
    ref = case.ref_keys
    if b.dsg is None:
        col.violation('build_error', sp, D.exc_info(b.error), flags, where={'exc': type(b.error).__name__})
        return
    col.count('monitor_walk_cases')
    # a connection choice that is still in the initialised graph: leaves are not comparable with the reference
    # architectures (those include connection edges); only the infeasibility checks apply to such a case
    conn_mode = bool(sp['conn']) and any(cn in b.dsg.graph.nodes for cn in b.conn.values())
    if conn_mode:
        col.count('cases_with_active_connection_choice')
    leaves = {}
    n_paths = 0
    n_infeasible = 0
    assigns_seen = {}
    for path, g, e in D.walk(b, max_paths=max_paths):
        n_paths += 1
        if e is not None:
            col.violation('walk_exception', sp, {'path': path, 'exc': D.exc_info(e)}, flags,
                          where={'exc': type(e).__name__})
            continue
        obs = O.instance(g, b)
        col.count('monitor_leaf_evaluations')
        sel_left = [c for c in obs['choices'] if c.startswith('S:')]
        if not obs['feasible']:
            n_infeasible += 1
            # an infeasible (partial) result must not be extendable to an admissible assignment (no over-pruning)
            pa = {k[2:]: v for k, v in path}
            ext = [a for archs in ref.values() for a in archs if all(a['assign'].get(k) == v for k, v in pa.items())]
            if ext and not sp['conn']:
                col.violation('admissible_branch_reported_infeasible', sp, {'path': path, 'admissible_extension':
                                                                            ext[0]['assign']}, flags)
            elif n_infeasible <= 40:
                # infeasibility is sticky: taking further choices on an infeasible graph (what the fast encoder does
                # while it looks for a neighbouring vector) never yields a graph that is reported feasible
                r = D.descend_infeasible(b, g, gen.rng_for('c06descend', S.digest(sp), S.canon(path)))
                col.count('monitor_infeasible_descents')
                col.count('infeasible_descent_' + r[0])
                if r[0] == 'became_feasible':
                    o2 = O.instance(r[2], b)
                    # (C02 reads the same observation as: a feasible instance reached through a partial assignment that no
                    # admissible architecture extends is not the closure of an admissible assignment)
                    col.violation('infeasible_graph_became_feasible' if prop == 'C06' else
                                  'feasible_instance_below_inadmissible_partial_assignment', sp,
                                  {'infeasible_after': path, 'then': r[1], 'nodes': o2['nodes'],
                                   'final': o2['final']}, flags)
            continue
            if not sel_left:
                assign, problems = O.read_assignment(obs, model, hint={k[2:]: v for k, v in path})
                if not problems and model.is_complete_minimal(assign) and dict(path).items() <= \
                        {'S:' + k: v for k, v in assign.items()}.items():
                    clos = model.closure(assign)
                    if model.selection_admissible(assign, clos) and set(obs['nodes']) == clos and not sp['conn']:
                        col.violation('admissible_leaf_reported_infeasible', sp, {'path': path, 'assign': assign},
                                      flags)
            continue
        # --- feasible leaf ---
        if conn_mode:
            continue
        if sel_left:
            col.violation('selection_choice_left_in_leaf', sp, {'path': path, 'left': sel_left}, flags)
            continue
        key = O.arch_key(obs)
        leaves.setdefault(key, []).append(path)
        assign, problems = O.read_assignment(obs, model, hint={k[2:]: v for k, v in path})
        clos = model.closure(assign)
        if problems:
            col.violation('leaf_not_a_closure', sp, {'path': path, 'problems': problems, 'nodes': obs['nodes']},
                          flags)
        elif set(obs['nodes']) != clos:
            col.violation('leaf_nodes_differ_from_closure', sp,
                          {'path': path, 'assign': assign, 'missing': sorted(clos - set(obs['nodes'])),
                           'extra': sorted(set(obs['nodes']) - clos)}, flags)
        else:
            hit = model.incompat_hit(clos)
            if hit:
                col.violation('feasible_leaf_contains_incompatible_pair', sp, {'path': path, 'pairs': hit}, flags)
            pa = {k[2:]: v for k, v in path}
            if any(assign.get(k) != v for k, v in pa.items()):
                col.violation('leaf_disagrees_with_choices_taken', sp, {'path': path, 'assign': assign}, flags)
            ak = S.canon(sorted(assign.items()))
            prev = assigns_seen.setdefault(ak, key)
            if prev != key:
                col.violation('order_dependent_result', sp, {'assign': assign, 'paths': leaves.get(prev, [])[:1] +
                                                             [path]}, flags)
    got, want = set(leaves), set(ref)
    if conn_mode:
        got = want = set()
    if n_paths >= max_paths:
        col.count('walk_truncated')
        # truncated walk: only soundness
        want = want & got
    if got - want:
        extra = sorted(got - want)[0]
        col.violation('extra_architectures', sp, {'n_extra': len(got - want), 'n_ref': len(ref),
                                                  'example_paths': leaves[extra][:2], 'example': extra[:600]}, flags)
    if want - got:
        miss = sorted(want - got)[0]
        col.violation('missing_architectures', sp,
                      {'n_missing': len(want - got), 'n_ref': len(ref), 'n_got': len(got),
                       'example_assign': ref[miss][0]['assign']}, flags)
    if len(ref) == 0 and b.dsg.feasible and n_paths > 0 and got:
        pass  # covered by extra_architectures
    if prop == 'C06':
        # a graph is reported infeasible from the start only if every assignment conflicts
        if not b.dsg.feasible and len(ref) > 0:
            col.violation('graph_infeasible_but_admissible_assignments_exist', sp, {'n_ref': len(ref)}, flags)
    nontrivial = len(ref) >= 2 and n_paths >= 2 and (prop != 'C06' or bool(sp['incompat']))
    if nontrivial:
        col.nontrivial.add(S.digest(sp))
    col.count('paths', n_paths)
    col.count('feasible_leaves', sum(len(v) for v in leaves.values()))
    col.count('infeasible_leaves', n_infeasible)
    col.count('distinct_architectures', len(got))
    if prop == 'C02' and sp['incompat']:
        reuse_check(prop, sp, col, flags)
    if len(col.samples) < 2 and nontrivial:
        col.sample({'spec': common.short(sp), 'paths_walked': n_paths, 'feasible_architectures': len(got),
                    'reference_architectures': len(ref), 'flags': flags})


def reuse_check(prop, sp, col, flags):
    """One builder object used for two set_start_nodes calls (as the repository's own tests do): the design space of
    the SECOND call must be that of a fresh builder with the same start nodes -- the first call (which prunes nodes
    incompatible with its confirmed nodes) must not have changed the builder."""
    import copy
    if sp['constraints'] or sp['conn'] or S.is_exotic(flags):
        return
    nm = S.node_map(sp)
    succ = {}
    for u, v in sp['edges']:
        succ.setdefault(u, []).append(v)
    cands = []
    if len(sp['start']) > 1:
        cands += [[s] for s in sp['start']]
    cands += [[v] for s in sp['start'] for v in succ.get(s, []) if nm[v]['kind'] == 'named'][:2]
    for c in sp['sel']:     # a start set below an option: the usual way to look at a sub-architecture
        cands += [[o] for o in c['options'][:1] if nm[o]['kind'] == 'named']
    if not cands:
        return
    rnd = gen.rng_for('reuse', S.digest(sp))
    start_b = cands[rnd.randrange(len(cands))]
    b = B.build(sp, initialize=False)
    if b.dsg is None:
        return
    builder = b.dsg
    col.count('monitor_builder_reuse_evaluations')
    try:
        builder.set_start_nodes({b.node[s] for s in sp['start']})       # first use (result checked by the main walk)
        g2 = builder.set_start_nodes({b.node[s] for s in start_b})      # second use of the same builder
    except Exception as e:  # noqa
        col.count('builder_reuse_rejected_' + type(e).__name__)
        return
    sp2 = copy.deepcopy(sp)
    sp2['start'] = start_b
    sp2.pop('features', None)
    case2 = D.Case(sp2)
    if case2.archs is None or case2.b.dsg is None:
        return
    b2 = copy.copy(b)
    b2.dsg = g2
    got = set()
    for path, g, e in D.walk(b2, max_paths=400):
        if e is not None or g is None:
            return   # (judged by the main walk on fresh builders)
        obs = O.instance(g, b2)
        if obs['feasible'] and not [c for c in obs['choices'] if c.startswith('S:')]:
            got.add(O.arch_key(obs))
    fresh = set()
    for path, g, e in D.walk(case2.b, max_paths=400):
        if e is not None or g is None:
            return
        obs = O.instance(g, case2.b)
        if obs['feasible'] and not [c for c in obs['choices'] if c.startswith('S:')]:
            fresh.add(O.arch_key(obs))
    if got != fresh:
        col.violation('reused_builder_differs_from_fresh_builder', sp,
                      {'second_start': start_b, 'n_reused': len(got), 'n_fresh': len(fresh),
                       'only_fresh': sorted(fresh - got)[:1], 'only_reused': sorted(got - fresh)[:1]}, flags,
                      where={'dir': 'missing' if fresh - got else 'extra'})


def worker(task, col):
    prop = task['prop']
    # call taps on the real methods: count every application (also internal auto-resolutions)
    from adsg_core.graph.adsg import DSG
    M.Tap(DSG, 'get_for_apply_selection_choice', counter=col.count)
    M.Tap(DSG, 'resolve_single_selection_choices', counter=col.count)
    if task.get('replay'):
        v = task['replay']['violation']
        common.guard(col, check_case, prop, v['spec'], col, 'replay')
        return
    if task['shard'] == 0:
        for c in common.corpus(prop):
            common.guard(col, check_case, prop, c['spec'], col, 'corpus')
    for i in range(task['lo'], task['hi']):
        name, sp = case_spec(prop, task['seed'], i)
        common.guard(col, check_case, prop, sp, col, name)


def main(run, prop=None):
    prop = run.prop
    if run.replay:
        run.map([{'replay': common.load_replay(run.replay), 'shard': 0, 'lo': 0, 'hi': 0}])
    else:
        n = 1600 if run.tier == 'quick' else 24000
        run.map(common.shard_tasks(n, run.jobs))
    rule = ('generated DSGs (growth process; classes main/shared/exotic incl. unreachable parts) + corpus; every '
            'active selection choice x every option x every order walked through get_for_apply_selection_choice; '
            'non-trivial = >=2 reference architectures and >=2 walked paths' +
            (' and >=1 incompatibility pair' if prop == 'C06' else '') + '; distinct = canonical spec hash')
    run.finish(rule, min_nontrivial=20, deciding=['monitor_leaf_evaluations', 'DSG.get_for_apply_selection_choice'],
               assumptions=['reference closure semantics from docs/theory.md (self-tested on its worked tables)',
                            'walk truncated at 3000 paths per spec (then only soundness is judged)'])
