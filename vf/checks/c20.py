"""C20: a supplementary graph resolves to the mapped option for each source architecture."""
from .. import gen, spec as S, build as B, observe as O, refmodel as R, drive as D, monitor as M
from . import common


def gen_sup(rnd, case):
    """supplementary spec with 1-3 (possibly nested) choices, each mapped onto the source"""
    b = case.b
    src_live = [k for k, cn in b.sel.items() if cn in b.dsg.graph.nodes]
    src_nodes = [b.name(n) for n in b.dsg.graph.nodes if b.name(n) in case.model.nodes]
    perm = case.model.permanent()
    nodes, sel = ['s0'], []
    origins = ['s0']
    n_ch = rnd.randint(1, 3)
    for j in range(n_ch):
        origin = rnd.choice(origins)
        if rnd.random() < .6 and src_live:
            key = rnd.choice(src_live)
            src_opts = [b.name(o) for o in b.dsg.get_option_nodes(b.sel[key])]
            n_opt = rnd.randint(2, max(2, len(src_opts) + 1))
            opts = ['s%d_%d' % (j + 1, i) for i in range(n_opt)]
            mp = [[o, rnd.choice(opts)] for o in src_opts]
            cond = case.model.sel[key]['origin'] not in perm
            if cond or rnd.random() < .3:
                mp.append([None, rnd.choice(opts)])
            rnd.shuffle(mp)
            mapping = {'type': 'option', 'src': key, 'map': mp}
        else:
            k = rnd.randint(1, min(3, len(src_nodes)))
            keys = rnd.sample(src_nodes, k)
            special = [n for n in src_nodes if case.model.nodes[n]['kind'] != 'named']
            if special and rnd.random() < .7:   # key on a design-variable / metric / connector node
                keys[0] = rnd.choice(special)
                keys = list(dict.fromkeys(keys))
            n_opt = rnd.randint(2, k + 1)
            opts = ['s%d_%d' % (j + 1, i) for i in range(n_opt)]
            mp = [[kk, rnd.choice(opts)] for kk in keys]
            mp.insert(rnd.randint(0, len(mp)), [None, rnd.choice(opts)])
            mapping = {'type': 'existence', 'map': mp}
        nodes += opts
        sel.append({'key': 'SC%d' % j, 'origin': origin, 'options': opts, 'mapping': mapping})
        origins += opts
    # a few plain derivations below options
    edges = []
    for i in range(rnd.randint(0, 3)):
        u = rnd.choice(origins)
        v = 't%d' % i
        nodes.append(v)
        edges.append([u, v])
    # options of one supplementary choice may share their NAME and differ only in their reference object
    refs = {}
    for c in sel:
        if rnd.random() < .25:
            for j_, o_ in enumerate(c['options']):
                refs[o_] = ['Opt_' + c['key'], 'ref%d' % j_]
    order = [c['key'] for c in sel]
    if rnd.random() < .6:
        rnd.shuffle(order)     # mappings need not be registered parents-first
    return {'nodes': nodes, 'edges': edges, 'start': ['s0'], 'sel': sel, 'mapping_order': order, 'refs': refs}


def expected_assign(sup, src_assign, src_nodes, model):
    """sup choice key -> expected option for one source architecture"""
    exp = {}
    for c in sup['sel']:
        m = c['mapping']
        mp = m['map']
        if m['type'] == 'option':
            origin = model.sel[m['src']]['origin']
            d = {k: v for k, v in mp}
            if origin not in src_nodes:
                exp[c['key']] = d.get(None, '<ERROR>')
            else:
                exp[c['key']] = d[src_assign[m['src']]]
        else:
            d_none = [v for k, v in mp if k is None][0]
            for k, v in mp:
                if k is not None and k in src_nodes:
                    exp[c['key']] = v
                    break
            else:
                exp[c['key']] = d_none
    return exp


def check_case(sp, col, seed_parts, shard='gen'):
    from adsg_core.graph.sup import SupInitializationError, SupResolveError
    col.evaluations += 1
    case = D.Case(sp)
    if case.b.dsg is None or case.archs is None or not case.archs:
        col.count('skipped_source_without_architectures')
        return
    rnd = gen.rng_for('C20sup', *seed_parts)
    model, b = case.model, case.b
    flags = case.flags
    sup = gen_sup(rnd, case)
    both = {'source': common.short(sp), 'sup': sup}
    try:
        sb = B.build_sup(sup, b)
    except Exception as e:  # noqa
        info = D.exc_info(e)
        col.violation('sup_build_exception', both, info, flags, where={'exc': info['type'], 'site': info['site']})
        return
    col.count('sup_graphs_built')
    sup_model = R.Model({'nodes': [{'id': n, 'kind': 'named'} for n in sup['nodes']], 'edges': sup['edges'],
                         'start': sup['start'],
                         'sel': [{'key': c['key'], 'origin': c['origin'], 'options': c['options']} for c in sup['sel']]})
    n_arch = 0
    seen = set()
    for path, g, e in D.walk(b, orders='first', max_paths=400):
        if e is not None or g is None:
            continue
        obs = O.instance(g, b)
        if not (obs['feasible'] and obs['final']):
            continue
        assign, problems = O.read_assignment(obs, model, hint={k[2:]: v for k, v in path})
        if problems or set(obs['nodes']) != model.closure(assign):
            col.count('skipped_source_instance_not_a_closure')
            continue
        n_arch += 1
        col.count('monitor_resolve_evaluations')
        exp = expected_assign(sup, assign, set(obs['nodes']), model)
        # expected resolved node set: closure of the sup graph under the expected options of the active choices
        want_assign = {}
        while True:
            clos = sup_model.closure(want_assign)
            nxt = [k for k in sup_model.active(clos) if k not in want_assign]
            if not nxt:
                break
            want_assign[nxt[0]] = exp[nxt[0]]
        want_nodes = sup_model.closure(want_assign)
        try:
            res = sb.dsg.resolve(g)
        except Exception as e2:  # noqa
            info = D.exc_info(e2)
            col.violation('resolve_error_on_final_feasible_source', both,
                          {'source_assign': assign, 'exc': info}, flags, where={'exc': info['type']})
            continue
        robs = O.instance(res, sb)
        seen.add(S.canon(robs['nodes']))
        if not robs['final'] or robs['choices']:
            col.violation('resolved_graph_not_final', both, {'source_assign': assign, 'left': robs['choices']}, flags)
        elif set(robs['nodes']) != want_nodes:
            col.violation('resolved_option_differs_from_mapping', both,
                          {'source_assign': assign, 'expected_options': want_assign,
                           'expected_nodes': sorted(want_nodes), 'resolved_nodes': robs['nodes']}, flags)
        # the supplementary graph object itself is unchanged by resolving (can be resolved again)
    # --- error cases ---
    col.count('monitor_error_case_evaluations')
    # (1) non-final source
    if b.dsg.choice_nodes:
        try:
            r = sb.dsg.resolve(b.dsg)
            col.violation('non_final_source_accepted', both, {'returned_final': bool(r.final)}, flags)
        except RuntimeError:
            pass
        except Exception as e3:  # noqa
            col.violation('non_final_source_wrong_error', both, D.exc_info(e3), flags)
    # (2) incomplete option mapping / missing None -> SupInitializationError
    for c in sup['sel']:
        m = c['mapping']
        if m['type'] == 'option' and len([1 for k, _ in m['map'] if k is not None]) >= 1:
            bad = dict(sup)
            drop = [kv for kv in m['map'] if kv[0] is not None][0]
            bad['sel'] = [dict(cc, mapping=dict(cc['mapping'], map=[kv for kv in cc['mapping']['map'] if kv != drop]))
                          if cc is c else cc for cc in sup['sel']]
            try:
                B.build_sup(bad, case.rebuild_same())
                col.violation('incomplete_mapping_accepted', {'source': common.short(sp), 'sup': bad},
                              {'dropped': drop}, flags)
            except SupInitializationError:
                pass
            except Exception as e4:  # noqa
                col.violation('incomplete_mapping_wrong_error', {'source': common.short(sp), 'sup': bad},
                              D.exc_info(e4), flags, where={'exc': type(e4).__name__})
            break
    # (3) duplicate mapping / unmapped choice -> RuntimeError at initialization
    c0 = sup['sel'][0]
    dup = dict(sup)
    dup['sel'] = [dict(c0, mappings=[c0['mapping'], c0['mapping']])] + [dict(cc) for cc in sup['sel'][1:]]
    for cc in dup['sel']:
        cc.pop('mapping', None) if 'mappings' in cc else None
    try:
        B.build_sup(dup, case.rebuild_same())
        col.violation('duplicate_mapping_accepted', {'source': common.short(sp), 'sup': dup}, {}, flags)
    except RuntimeError:
        pass
    except Exception as e5:  # noqa
        col.violation('duplicate_mapping_wrong_error', {'source': common.short(sp), 'sup': dup}, D.exc_info(e5), flags)
    un = dict(sup)
    un['sel'] = [dict(c0, mappings=[])] + [dict(cc) for cc in sup['sel'][1:]]
    un['sel'][0].pop('mapping', None)
    try:
        B.build_sup(un, case.rebuild_same())
        col.violation('unmapped_choice_accepted', {'source': common.short(sp), 'sup': un}, {}, flags)
    except RuntimeError:
        pass
    except Exception as e6:  # noqa
        col.violation('unmapped_choice_wrong_error', {'source': common.short(sp), 'sup': un}, D.exc_info(e6), flags)
    if n_arch >= 2 and len(seen) >= 1:
        col.nontrivial.add(S.digest(both))
        if len(col.samples) < 2:
            col.sample({'source': common.short(sp), 'sup': sup, 'source_architectures_resolved': n_arch,
                        'distinct_resolved_graphs': len(seen)})
    col.count('source_architectures', n_arch)


def worker(task, col):
    from adsg_core.graph.sup import SupDSG
    M.Tap(SupDSG, 'resolve', counter=col.count)
    M.Tap(SupDSG, 'add_mapping', counter=col.count)
    D.Case.rebuild_same = lambda self: self.b   # mappings are initialised against the same source objects
    if task.get('replay'):
        v = task['replay']['violation']
        common.guard(col, check_case, v['source_spec'], col, v['seed_parts'], 'replay')
        return
    if task.get('shard') == 0:
        for c in common.corpus('C20'):
            for rep in range(12):
                common.guard(col, check_case, c['spec'], col, ('corpus', c['file'], rep))
    for i in range(task['lo'], task['hi']):
        rnd = gen.rng_for('C20', task['seed'], i)
        r = rnd.random()
        if r < .2:
            # sources with design-variable and metric nodes (existence mappings may be keyed on any node type)
            sp = gen.gen_spec(rnd, p_incompat=.2, n_steps=(3, 8), n_dv=(1, 3), n_metric=(1, 2))
        elif r < .75:
            sp = gen.gen_spec(rnd, p_incompat=.3, n_steps=(3, 9))
        elif r < .9:
            sp = gen.gen_spec(rnd, p_incompat=.3, allow=('opt_derived_by_origin',), p_opt_existing=.4)
        else:
            sp = gen.gen_spec(rnd, p_incompat=.3, allow=('shared_option',), p_opt_existing=.4, p_multi_choice=.3)
        n0 = len(col.violations)
        common.guard(col, check_case, sp, col, ('C20', task['seed'], i))
        for v in col.violations[n0:]:
            v['source_spec'] = sp
            v['seed_parts'] = ['C20', task['seed'], i]


def main(run):
    if run.replay:
        run.map([{'replay': common.load_replay(run.replay), 'shard': 0}])
    else:
        run.map(common.shard_tasks(1200 if run.tier == 'quick' else 20000, run.jobs))
    run.finish('generated source DSGs (selection choices, incompatibilities; classes main / option also derived by '
               'its originating node / shared options) x every feasible source architecture x generated '
               'supplementary graphs with 1-3 (nested) choices mapped by option mappings (incl. the inactive case) '
               'and existence mappings (priority order); plus incomplete / duplicate / unmapped / non-final error '
               'cases; non-trivial = >=2 source architectures resolved; distinct = hash of (source, sup) specs',
               min_nontrivial=20, deciding=['monitor_resolve_evaluations', 'SupDSG.resolve',
                                            'monitor_error_case_evaluations'],
               assumptions=['expected option computed from the reference assignment of the source instance'])
