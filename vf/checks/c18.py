"""C18: identity, equality and serialization of graphs are structural and stable.

In-process laws (copy/edit/pickle/export) plus a two-phase cross-process protocol: phase 1 workers (hash seed A)
build specs, record design-variable tables and decode tables and write pickles; phase 2 workers (hash seed B)
load the pickles, rebuild the same specs and compare."""
import os
import re
import json
import base64
import pickle
import shutil
import tempfile
import collections
from .. import gen, spec as S, build as B, observe as O, refmodel as R, drive as D, monitor as M, core
from . import common
from .decode import obs_key

PROFILES = [
    ('sel', .3, dict(p_incompat=.4, n_steps=(3, 9))),
    ('sel_con', .15, dict(p_incompat=.3, p_constraint=1.0, n_steps=(5, 10))),
    ('dv', .2, dict(p_incompat=.2, n_dv=(1, 3), p_dv_link=.4, n_metric=(0, 2), n_steps=(3, 8))),
    ('conn', .1, dict(p_incompat=.15, n_conn=(1, 1), n_steps=(2, 5), max_sel=2, max_opts=3, max_side=2, n_dv=(0, 1))),
    # grouping connectors with conditional members: their aggregated degree lives on a node object shared by all graphs
    ('conn_grp', .05, dict(p_incompat=.1, n_conn=(1, 1), p_grp=.8, p_conn_cond=.8, n_steps=(2, 5), max_sel=2, max_opts=3)),
    ('dup_id', .1, dict(p_incompat=.3, p_dup_id=.7, n_dv=(0, 2), p_multi_choice=.3)),
    # three connection choices active together: a processor that has decoded keeps partial instances keyed on what was
    # applied before, and carries them through pickle
    ('conn3', .04, dict(p_incompat=.1, n_conn=(3, 3), n_steps=(1, 3), max_sel=1, max_opts=2, p_grp=0., p_excl=.1,
                        p_conn_cond=.15, max_side=2, max_side_total=3)),
    # a node that is an option of several choices gets its option id from the first one: options of the other choice
    # can then tie on (decision id, option id)
    ('shared_option', .06, dict(allow=('shared_option',), p_incompat=.2, p_opt_existing=.5, p_multi_choice=.3)),
]


def case_spec(seed, i):
    rnd = gen.rng_for('C18', seed, i)
    r = rnd.random()
    acc = 0
    if i % 16 == 5:   # (so that the cross-process phases, which use the first cases only, always see a few of these)
        return 'conn3_simple', gen.gen_conn3_simple(rnd)
    if r > .93:
        return 'replica', gen.gen_replica(rnd)
    if r > .88:
        return 'option_tie', gen.gen_option_tie(rnd)
    for name, w, kw in PROFILES:
        acc += w
        if r < acc:
            break
    return name, gen.gen_spec(rnd, **kw)


def edits(b, rnd):
    """yield (description, function(dsg) -> edited dsg) for single structural edits"""
    import adsg_core as ac
    from adsg_core.graph.graph_edges import EdgeType
    from adsg_core.graph.choice_constraints import ChoiceConstraintType
    import adsg_core.graph.adsg_nodes as an
    g0 = b.dsg
    nodes = [n for n in g0.graph.nodes]
    named = [n for n in nodes if isinstance(n, ac.NamedNode)]

    def add_node(g):
        g.add_node(ac.NamedNode('EXTRA'))
        return g
    yield 'add_node', add_node
    removable = [n for n in nodes if n not in (g0.derivation_start_nodes or set())]
    if removable:
        victim = rnd.choice(removable)
        yield 'remove_node', lambda g: g.get_for_adjusted(removed_nodes=[victim])
    if len(named) >= 2:
        u, v = rnd.sample(named, 2)
        for et in (EdgeType.DERIVES, EdgeType.CONNECTS, EdgeType.EXCLUDES):
            def add_e(g, u=u, v=v, et=et):
                g.add_edge(u, v, edge_type=et)
                return g
            yield 'add_edge_' + et.name, add_e

        def add_inc(g, u=u, v=v):
            g.add_incompatibility_constraint([u, v])
            return g
        yield 'add_edge_INCOMPATIBILITY', add_inc
    es = list(g0.graph.edges(keys=True, data=True))
    if es:
        e = rnd.choice(es)
        yield 'remove_edge_' + e[3]['type'].name, lambda g: g.get_for_adjusted(removed_edges=[e])
    st = g0.derivation_start_nodes or set()
    cand = [n for n in named if n not in st]
    if cand:
        extra = rnd.choice(cand)

        def add_start(g):
            return g.get_for_adjusted(start_nodes=set(st) | {extra}) if False else _with_start(g, set(st) | {extra})
        yield 'add_start_node', add_start
    sels = [n for n in nodes if isinstance(n, an.SelectionChoiceNode) and g0.is_constrained_choice(n) is None]
    by_n = {}
    for n in sels:
        by_n.setdefault(len(g0.get_option_nodes(n)), []).append(n)
    grp = [v for k, v in by_n.items() if len(v) >= 2 and k >= 2]
    if grp:
        pair = rnd.sample(grp[0], 2)
        yield 'add_constraint', lambda g: g.constrain_choices(ChoiceConstraintType.PERMUTATION, pair,
                                                              remove_infeasible_choices=False)


def _with_start(g, start):
    g2 = g.copy()
    g2._start_nodes = start   # BasicDSG keeps its start nodes here; set_start_nodes would also prune the graph
    return g2


def in_process(sp, col, seed_parts):
    sp = S.normalize(sp)
    flags = S.classify(sp)
    rnd = gen.rng_for('C18e', *seed_parts)
    b = B.build(sp)
    if b.dsg is None:
        return False
    g = b.dsg
    col.count('monitor_copy_evaluations')
    cp = g.copy()
    if not (cp == g) or hash(cp) != hash(g):
        col.violation('copy_not_equal', sp, {'eq': cp == g, 'same_hash': hash(cp) == hash(g)}, flags)
        return True
    for desc, fn in edits(b, rnd):
        for side in ('copy', 'original'):
            a, c = g.copy(), g.copy()
            try:
                edited = fn(a if side == 'copy' else c)
            except Exception as e:  # noqa
                col.count('edit_failed_' + type(e).__name__)
                continue
            other = c if side == 'copy' else a
            col.count('monitor_edit_evaluations')
            changed = O.instance(edited, b, deep=True) != O.instance(other, b, deep=True)
            if not changed:
                col.count('edit_was_noop')
                continue
            if edited == other or hash(edited) == hash(other):
                col.violation('edit_not_detected_by_equality', sp, {'edit': desc, 'side': side}, flags,
                              where={'edit': desc})
    # pickle round trip of the graph: same design space, equal
    col.count('monitor_pickle_evaluations')
    try:
        g2 = pickle.loads(pickle.dumps(g))
        if not g2.is_same(g) or g2.fingerprint() != g.fingerprint():
            col.violation('pickled_graph_not_same', sp, {}, flags)
        o1, o2 = O.instance(g, b, deep=True), O.instance(g2, b, deep=True)
        if o1 != o2:
            k = [k for k in o1 if o1[k] != o2.get(k)]
            col.violation('pickled_graph_observation_differs', sp, {'keys': k}, flags)
        # a fresh build of the same description is the same design space
        b2 = B.build(sp)
        if b2.dsg is not None and not b2.dsg.is_same(g):
            col.violation('rebuilt_graph_not_same', sp, {}, flags)
        # ... and a different description is not
        other_sp = gen.gen_spec(gen.rng_for('C18other', *seed_parts), p_incompat=.3)
        b3 = B.build(other_sp)
        if b3.dsg is not None and S.digest(common.short(other_sp)) != S.digest(common.short(sp)):
            same = b3.dsg.is_same(g)
            # (compare what the two INITIALISED graphs contain: a single-option choice is resolved at initialisation,
            # so two different descriptions can legitimately be the same graph)
            oa, ob_ = O.instance(g, b), O.instance(b3.dsg, b3)
            struct_same = _structure(other_sp) == _structure(sp) or \
                all(oa[k_] == ob_[k_] for k_ in ('nodes', 'choices', 'edges'))
            if same and not struct_same:
                col.violation('different_graphs_recognised_as_same', {'a': common.short(sp), 'b': common.short(other_sp)},
                              {}, flags)
    except Exception as e:  # noqa
        info = D.exc_info(e)
        col.violation('pickle_exception', sp, {'exc': info}, flags, where={'exc': info['type'], 'site': info['site']})
    history_stability(sp, b, col, flags, rnd)
    exports(sp, b, col, flags)
    return True


def history_stability(sp, b, col, flags, rnd):
    """The identity of an untouched design space graph does not depend on what was derived or decoded from it in the
    meantime: fingerprint unchanged, an earlier pickle and a later pickle are both the same design space as the graph
    and as a fresh build of the description."""
    from adsg_core.optimization.graph_processor import GraphProcessor
    g = b.dsg
    try:
        f0, p0 = g.fingerprint(), pickle.dumps(g)
    except Exception:  # noqa  (judged by the round-trip part)
        return
    steps = []
    try:
        cur = g
        for _ in range(6):   # a random walk over the selection choices: derived graphs with fewer nodes
            chs = cur.get_ordered_next_choice_nodes()
            chs = [c for c in chs if type(c).__name__ == 'SelectionChoiceNode']
            if not chs:
                break
            c = chs[0]
            opts = cur.get_option_nodes(c)
            if not opts:
                break
            cur = cur.get_for_apply_selection_choice(c, rnd.choice(opts))
            _ = cur.feasible
            steps.append('apply')
        gp = GraphProcessor(g)
        vecs, _ = D.declared_space(gp, 6, rnd)
        for x in vecs:
            gi, _x, _a = gp.get_graph(x)
            _ = gi.feasible
            steps.append('decode')
    except Exception:  # noqa  (decoding itself is judged elsewhere)
        col.count('history_stability_ops_failed')
    if not steps:
        return
    col.count('monitor_history_stability_evaluations')
    try:
        f1 = g.fingerprint()
        early, late = pickle.loads(p0), pickle.loads(pickle.dumps(g))
        fresh = B.build(sp).dsg
        bad = {}
        if f1 != f0:
            bad['fingerprint_changed'] = True
        if not early.is_same(g):
            bad['earlier_pickle_not_same_as_graph'] = True
        if fresh is not None and not late.is_same(fresh):
            bad['later_pickle_not_same_as_fresh_build'] = True
        if fresh is not None and not g.is_same(fresh):
            bad['graph_not_same_as_fresh_build'] = True
        if bad:
            col.violation('identity_depends_on_history', sp, dict(bad, steps=steps), flags)
    except Exception as e:  # noqa
        info = D.exc_info(e)
        col.violation('pickle_exception', sp, {'exc': info, 'stage': 'history'}, flags,
                      where={'exc': info['type'], 'site': info['site']})


def _structure(sp):
    sp = S.normalize(sp)
    return S.canon({'n': sorted(n['id'] for n in sp['nodes']), 'e': sorted(map(tuple, sp['edges'])),
                    's': sorted((c['id'], c['origin'], tuple(c['options'])) for c in sp['sel']),
                    'i': sorted(map(tuple, sp['incompat'])), 'st': sorted(sp['start'])})


def exports(sp, b, col, flags):
    g = b.dsg
    n_nodes, n_edges = len(g.graph.nodes), len(g.graph.edges)
    col.count('monitor_export_evaluations')
    try:
        gml = g.export_gml()
        nn, ne = len(re.findall(r'^\s*node \[', gml, re.M)), len(re.findall(r'^\s*edge \[', gml, re.M))
        if nn != n_nodes or ne != n_edges:
            col.violation('gml_export_incomplete', sp, {'nodes': [nn, n_nodes], 'edges': [ne, n_edges]}, flags)
    except Exception as e:  # noqa
        info = D.exc_info(e)
        col.violation('export_exception', sp, {'format': 'gml', 'exc': info}, flags,
                      where={'format': 'gml', 'exc': info['type']})
    try:
        dot = g.export_dot(return_dot=True)
        labels = {}
        for nd in dot.get_nodes():
            nm = nd.get_name()
            if nm in ('graph', 'node', 'edge'):
                continue
            labels[nm] = nd.get('label')
        if len(labels) != n_nodes:
            col.violation('dot_export_incomplete', sp, {'what': 'nodes', 'dot': len(labels), 'graph': n_nodes}, flags)
            return
        # every connected ordered node pair appears (incompatibilities once per unordered pair)
        pairs_g = set()
        inc = set()
        for u, v, d in g.graph.edges(data=True):
            if d['type'].name == 'INCOMPATIBILITY':
                inc.add(frozenset((u, v)))
            else:
                pairs_g.add((u, v))
        n_dot_edges = len([e for e in dot.get_edges() if e.get('style') != 'dotted'])
        # a DiGraph export merges an incompatibility pair with a same-direction edge; count distinct pairs
        want = len(pairs_g | {tuple(p) if len(p) == 2 else (list(p)[0],) * 2 for p in []})
        merged = 0
        for p in inc:
            p = tuple(p)
            if len(p) == 2 and ((p[0], p[1]) in pairs_g or (p[1], p[0]) in pairs_g):
                merged += 1
        want_min = len(pairs_g) + len(inc) - merged
        if n_dot_edges < want_min:
            col.violation('dot_export_incomplete', sp, {'what': 'edges', 'dot': n_dot_edges, 'graph_pairs': want_min},
                          flags)
    except Exception as e:  # noqa
        info = D.exc_info(e)
        col.violation('export_exception', sp, {'format': 'dot', 'exc': info}, flags,
                      where={'format': 'dot', 'exc': info['type']})


def tables(sp, b, gp, model):
    """design-variable table and decode table of a processor, by names"""
    dv = O.des_vars(gp, b)
    rnd = gen.rng_for('C18tab', S.digest(sp))
    vecs, _ = D.declared_space(gp, 40, rnd)
    tab = []
    for x in vecs:
        try:
            g, x1, a1 = gp.get_graph(x)
            obs = O.instance(g, b)
            tab.append([x, [round(float(v), 9) for v in x1], [bool(v) for v in a1],
                        S.digest([obs_key(obs, model), obs['dv']])])
        except Exception as e:  # noqa
            tab.append([x, 'EXC:' + type(e).__name__])
    objs = [o.name for o in gp.objectives] if _safe(lambda: gp.objectives) is not None else 'ERR'
    cons = [c.name for c in gp.constraints] if _safe(lambda: gp.constraints) is not None else 'ERR'
    try:   # which connection encoder the (time-limited, hence load-dependent) selection handed to this processor
        conn_enc = sorted(repr(d[0].encoder) for d in gp._conn_choice_data_map.values())
    except Exception:  # noqa
        conn_enc = None
    return {'dv': dv, 'table': S.digest(tab), 'objectives': objs, 'constraints': cons, 'conn_enc': conn_enc}


def _safe(f):
    try:
        return f()
    except Exception:  # noqa
        return None


def phase1(task, col):
    from adsg_core.optimization.graph_processor import GraphProcessor
    from adsg_core.optimization.hierarchy.registry import SelChoiceEncoderType
    out = {}
    for i in range(task['lo'], task['hi']):
        name, sp = case_spec(task['seed'], i)
        sp = S.normalize(sp)
        col.evaluations += 1
        b = B.build(sp)
        if b.dsg is None:
            continue
        model = R.Model(sp)
        rec = {'__spec__': S.digest(sp)}
        for enc in ('COMPLETE', 'FAST'):
            try:
                gp = GraphProcessor(b.dsg, encoder_type=getattr(SelChoiceEncoderType, enc))
                rec[enc] = tables(sp, b, gp, model)
                if enc == 'COMPLETE':
                    with open(os.path.join(task['dir'], '%s_%d.pkl' % (task['hs'], i)), 'wb') as fp:
                        pickle.dump({'dsg': b.dsg, 'gp': gp, 'spec': S.digest(sp)}, fp)
            except Exception as e:  # noqa
                rec[enc] = 'EXC:' + type(e).__name__
        out[str(i)] = rec
        col.count('monitor_phase1_tables')
    col.samples.append({'__phase1__': out, 'hs': task['hs']})


def phase2(task, col):
    """load the pickles written under another hash seed, rebuild, compare"""
    for i in range(task['lo'], task['hi']):
        path = os.path.join(task['dir'], '%s_%d.pkl' % (task['from_hs'], i))
        if not os.path.exists(path):
            continue
        name, sp = case_spec(task['seed'], i)
        sp = S.normalize(sp)
        flags = S.classify(sp)
        col.evaluations += 1
        col.count('monitor_phase2_unpickles')
        try:
            with open(path, 'rb') as fp:
                d = pickle.load(fp)
            if d.get('spec') != S.digest(sp):   # harness self-check: the generator must not depend on the hash seed
                col.inconclusive.append({'reason': 'generated spec differs between processes', 'case': i})
                continue
            b = B.build(sp)
            if not d['dsg'].is_same(b.dsg):
                col.violation('unpickled_graph_not_recognised_in_other_process', sp,
                              {'from_hash_seed': task['from_hs'], 'in_hash_seed': task['hs']}, flags)
            gp = d['gp']
            # names through structure (node objects of the pickle are not the builder's)
            bb = B.Built()
            bb.spec = sp
            dv = O.des_vars(gp, bb)
            mapping_after_unpickle(sp, gp, b, bb, col, flags, task)
            col.samples.append({'__phase2__': {str(i): {'dv_names': [v['name'] for v in dv],
                                                        'n_opts': [v.get('n_opts') for v in dv]}},
                                'hs': task['hs'], 'from_hs': task['from_hs']})
        except Exception as e:  # noqa
            info = D.exc_info(e)
            col.violation('unpickle_exception_in_other_process', sp, {'exc': info}, flags,
                          where={'exc': info['type'], 'site': info['site']})


def mapping_after_unpickle(sp, gp, b, bb, col, flags, task):
    """The restored processor (which decoded in the process that pickled it) maps vectors to the same architectures as
    processors built here from the description, one fresh processor per vector."""
    from adsg_core.optimization.graph_processor import GraphProcessor
    rnd = gen.rng_for('C18map', S.digest(sp))
    try:
        vecs, _ = D.declared_space(gp, 10, rnd)
    except Exception:  # noqa
        return
    rnd.shuffle(vecs)
    bare = B.Built()
    bare.spec = sp

    def key(g):
        o = O.instance(g, bare)
        return S.digest([o['nodes'], o['edges'], o['dv']])
    for x in vecs[:8]:
        try:
            g1, x1, a1 = gp.get_graph(x)
            g2, x2, a2 = GraphProcessor(b.dsg).get_graph(x)
        except Exception:  # noqa  (decoding itself is judged elsewhere)
            col.count('mapping_after_unpickle_decode_failed')
            continue
        col.count('monitor_mapping_after_unpickle_evaluations')
        if key(g1) != key(g2) or [round(float(v), 9) for v in x1] != [round(float(v), 9) for v in x2]:
            col.violation('unpickled_processor_maps_vector_to_other_architecture', sp,
                          {'x': [float(v) for v in x], 'restored': [float(v) for v in x1],
                           'rebuilt': [float(v) for v in x2], 'same_instance': key(g1) == key(g2),
                           'pickled_under': task['from_hs'], 'loaded_under': task['hs']}, flags)
            return


def worker(task, col):
    from adsg_core.graph.adsg import DSG
    M.Tap(DSG, 'copy', counter=col.count)
    M.Tap(DSG, 'fingerprint', counter=col.count)
    if task.get('kind') == 'phase1':
        return phase1(task, col)
    if task.get('kind') == 'phase2':
        return phase2(task, col)
    if task.get('replay'):
        v = task['replay']['violation']
        if v.get('spec') and 'nodes' in v['spec']:
            common.guard(col, in_process, v['spec'], col, ['replay'])
        return
    if task['shard'] == 0:
        for c in common.corpus('C18'):
            col.evaluations += 1
            if common.guard(col, in_process, c['spec'], col, ['corpus', c['file']]):
                col.nontrivial.add(S.digest(c['spec']))
    for i in range(task['lo'], task['hi']):
        name, sp = case_spec(task['seed'], i)
        col.evaluations += 1
        if common.guard(col, in_process, sp, col, ['C18', task['seed'], i]):
            col.nontrivial.add(S.digest(sp))
            if len(col.samples) < 2:
                col.sample({'spec': common.short(sp), 'class': name})


def main(run):
    extra = {}
    if run.replay:
        run.map([{'replay': common.load_replay(run.replay), 'shard': 0}])
        run.finish('replay', min_nontrivial=0)
    quick = run.tier == 'quick'
    run.map(common.shard_tasks(480 if quick else 9000, run.jobs), timeout=3400)
    n_x = 64 if quick else 800
    tmp = tempfile.mkdtemp(prefix='vfc18_')
    try:
        seeds = ['0', '1', '2', '3']
        t1 = []
        for hs in seeds:
            for t in common.shard_tasks(n_x, 4, kind='phase1', dir=tmp, hs=hs):
                t['_hashseed'] = hs
                t1.append(t)
        run.map(t1, timeout=3400)
        t2 = []
        for hs, from_hs in (('1', '0'), ('0', '2'), ('3', '1')):
            for t in common.shard_tasks(n_x, 4, kind='phase2', dir=tmp, hs=hs, from_hs=from_hs):
                t['_hashseed'] = hs
                t2.append(t)
        run.map(t2, timeout=3400)
    finally:
        shutil.rmtree(tmp, ignore_errors=True)
    per = collections.defaultdict(dict)
    p2 = collections.defaultdict(dict)
    for r in run.results:
        keep = []
        for s in r.get('samples', []):
            if isinstance(s, dict) and '__phase1__' in s:
                for i, rec in s['__phase1__'].items():
                    per[i][s['hs']] = rec
            elif isinstance(s, dict) and '__phase2__' in s:
                for i, rec in s['__phase2__'].items():
                    p2[i][(s['from_hs'], s['hs'])] = rec
            else:
                keep.append(s)
        r['samples'] = keep
    viols = []
    n_cmp = 0
    n_sel_differs = [0]
    for i, by_hs in per.items():
        if len(by_hs) < 2:
            continue
        n_cmp += 1
        ref_hs = sorted(by_hs)[0]
        if len({rec.get('__spec__') for rec in by_hs.values()}) > 1:
            run.results.append({'inconclusive': [{'reason': 'generated spec differs between processes', 'case': i}]})
            continue
        for hs, rec in by_hs.items():
            if S.canon(rec) != S.canon(by_hs[ref_hs]):
                name, sp = case_spec(run.seed, int(i))
                sp = S.normalize(sp)
                what = []
                for enc in ('COMPLETE', 'FAST'):
                    a, c = by_hs[ref_hs].get(enc), rec.get(enc)
                    if a != c:
                        if isinstance(a, dict) and isinstance(c, dict):
                            if a.get('conn_enc') != c.get('conn_enc'):
                                # the two processes were handed different connection encoders: which candidate wins
                                # the time-limited scoring depends on machine load (see C12); counted, not judged
                                n_sel_differs[0] += 1
                                continue
                            what += ['%s:%s' % (enc, k) for k in a if a[k] != c.get(k)]
                        else:
                            what.append(enc)
                if not what:
                    break
                viols.append({'symptom': 'design_variables_or_decoding_differ_between_processes', 'spec': sp,
                              'flags': S.classify(sp), 'where': {},
                              'detail': {'hash_seeds': [ref_hs, hs], 'differs': what,
                                         'dv_a': [v['name'] + '@' + str(v['node']) for v in by_hs[ref_hs].get('COMPLETE', {}).get('dv', [])] if isinstance(by_hs[ref_hs].get('COMPLETE'), dict) else None,
                                         'dv_b': [v['name'] + '@' + str(v['node']) for v in rec.get('COMPLETE', {}).get('dv', [])] if isinstance(rec.get('COMPLETE'), dict) else None}})
                break
    # unpickled processors define the same variables as the process that pickled them
    for i, recs in p2.items():
        for (from_hs, hs), rec in recs.items():
            src = per.get(i, {}).get(from_hs, {}).get('COMPLETE')
            if isinstance(src, dict):
                names = [v['name'] for v in src['dv']]
                if names != rec['dv_names']:
                    name, sp = case_spec(run.seed, int(i))
                    sp = S.normalize(sp)
                    viols.append({'symptom': 'unpickled_processor_defines_other_variables', 'spec': sp,
                                  'flags': S.classify(sp), 'where': {},
                                  'detail': {'pickled_under': from_hs, 'loaded_under': hs, 'before': names,
                                             'after': rec['dv_names']}})
    extra = {'cross_process_specs_compared': n_cmp, 'hash_seeds': ['0', '1', '2', '3'],
             'pickles_exchanged_between_processes': sum(len(v) for v in p2.values())}
    run.results.append({'evaluations': 0, 'violations': viols,
                        'counters': {'monitor_cross_process_comparisons': n_cmp,
                                     'cross_process_encoder_selection_differs_not_judged': n_sel_differs[0]},
                        'nontrivial': []})
    run.finish('generated DSGs (selection, constraints, DV/metric nodes, connection choices, duplicate choice ids): copy '
               '== original with equal hash; every single structural edit (node, edge of each type, start node, '
               'constraint; on either side) makes them unequal; pickle round trips; fresh rebuild is_same; GML/DOT '
               'exports complete; the same specs built in processes with PYTHONHASHSEED 0/1/2/3 give identical '
               'design-variable tables and decode tables; pickles loaded in a process with another hash seed are '
               'recognised (is_same) and define the same variables; non-trivial = in-process laws evaluated on a '
               'buildable spec',
               min_nontrivial=20, deciding=['monitor_copy_evaluations', 'monitor_edit_evaluations',
                                            'monitor_cross_process_comparisons', 'monitor_phase2_unpickles'],
               extra_cov=extra,
               assumptions=['DOT export is a simple digraph by design: parallel edges are merged and annotated'])
