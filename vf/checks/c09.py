"""C09: connection-set enumeration is exact (vs brute force), validity test <=> membership, counts agree."""
import itertools
import os
import numpy as np
from .. import gen, spec as S, build as B, refmodel as R, drive as D, monitor as M
from . import common

ALPHA = [{'list': [1]}, {'list': [0, 1]}, {'list': [0, 2]}, {'list': [1, 3]}, {'min': 0, 'max': 2},
         {'min': 1}, {'min': 0}, {'min': 2}]


def exhaustive_settings():
    """every combination of connector types from ALPHA x rep for up to 2x2 nodes, all existence patterns,
    0/1 exclusions -- yields connector-settings specs in a fixed order"""
    types = [(d, r) for d in ALPHA for r in (False, True)]
    for ns, nt in ((1, 1), (1, 2), (2, 1), (2, 2)):
        for combo in itertools.product(types, repeat=ns + nt):
            src = [{'deg': d, 'rep': r} for d, r in combo[:ns]]
            tgt = [{'deg': d, 'rep': r} for d, r in combo[ns:]]
            pats = []
            for se in itertools.product([True, False], repeat=ns):
                for te in itertools.product([True, False], repeat=nt):
                    pats.append({'src_exists': list(se), 'tgt_exists': list(te)})
            excl_opts = [[]] + [[[i, j]] for i in range(ns) for j in range(nt)] if ns * nt > 1 else [[]]
            for ex in excl_opts:
                yield {'src': src, 'tgt': tgt, 'excluded': ex, 'patterns': pats, 'max_conn_parallel': None}


def n_exhaustive():
    n = 0
    for ns, nt in ((1, 1), (1, 2), (2, 1), (2, 2)):
        n += (len(ALPHA) * 2) ** (ns + nt) * (1 + (ns * nt if ns * nt > 1 else 0))
    return n


def check_settings(cs, col, kind, all_matrices_cap=6000):
    import adsg_core.optimization.assign_enc.matrix as mx
    col.evaluations += 1
    col.count('cases_' + kind)
    settings = B.make_settings(cs)
    genr = mx.AggregateAssignmentMatrixGenerator(settings)
    pats = cs['patterns'] if cs.get('patterns') is not None else [None]
    try:
        agg = genr.get_agg_matrix(cache=False)
    except Exception as e:  # noqa
        info = D.exc_info(e)
        col.violation('agg_matrix_exception', cs, info, [], where={'exc': info['type'], 'site': info['site']})
        return
    total, biggest = 0, 0
    nontrivial = False
    for p in pats:
        existence = B.make_existence(p) if p is not None else mx.NodeExistence()
        ref = R.settings_matrices(cs, p)
        refset = set(ref)
        col.count('monitor_pattern_evaluations')
        arr = agg.get(existence)
        if arr is None:
            col.violation('pattern_missing_from_agg_matrix', cs, {'pattern': p}, [])
            continue
        got = [tuple(tuple(int(v) for v in row) for row in m) for m in arr]
        gotset = set(got)
        total += len(got)
        biggest = max(biggest, len(got))
        if len(gotset) != len(got):
            col.violation('duplicate_matrices', cs, {'pattern': p, 'n': len(got), 'n_distinct': len(gotset)}, [])
        if gotset != refset:
            col.violation('enumeration_differs_from_brute_force', cs,
                          {'pattern': p, 'missing': sorted(refset - gotset)[:3], 'extra': sorted(gotset - refset)[:3],
                           'n_ref': len(refset), 'n_got': len(gotset)}, [],
                          where={'dir': 'missing' if refset - gotset else 'extra'})
        if len(refset) >= 2:
            nontrivial = True
        # validity <=> membership over every matrix of the cube {0..dmax}^(n x m)
        ns, nt = len(cs['src']), len(cs['tgt'])
        _, _, _, _, L = R.settings_problem(cs, p)
        dmax = max([1] + [v for row in L for v in row]) + 1
        cube = (dmax + 1) ** (ns * nt)
        if cube <= all_matrices_cap:
            cands = itertools.product(range(dmax + 1), repeat=ns * nt)
            col.count('validity_cubes_exhaustive')
        else:
            rnd = gen.rng_for('c09cube', S.digest(cs), S.canon(p))
            cands = [tuple(rnd.randint(0, dmax) for _ in range(ns * nt)) for _ in range(1500)]
            cands += [tuple(v for row in m for v in row) for m in ref[:500]]
            col.count('validity_cubes_sampled')
        for flat in cands:
            M_ = np.array(flat, dtype=int).reshape(ns, nt)
            col.count('monitor_validate_evaluations')
            try:
                ok = bool(genr.validate_matrix(M_, existence=existence))
            except Exception as e:  # noqa
                info = D.exc_info(e)
                col.violation('validate_matrix_exception', cs, {'pattern': p, 'matrix': M_.tolist(), 'exc': info}, [],
                              where={'exc': info['type']})
                break
            want = tuple(tuple(int(v) for v in row) for row in M_) in refset
            if ok != want:
                col.violation('validity_differs_from_membership', cs,
                              {'pattern': p, 'matrix': M_.tolist(), 'validate_matrix': ok, 'in_reference_set': want},
                              [], where={'dir': 'accepts_invalid' if ok else 'rejects_valid'})
                break
        # iter_matrices for this pattern
        try:
            it = []
            for mats, ex in genr.iter_matrices(existence=existence):
                it.append(tuple(tuple(int(v) for v in row) for row in mats))
            if sorted(it) != sorted(got):
                col.violation('iter_matrices_differs', cs, {'pattern': p, 'n_iter': len(it), 'n_agg': len(got)}, [])
        except Exception as e:  # noqa
            info = D.exc_info(e)
            col.violation('iter_matrices_exception', cs, {'pattern': p, 'exc': info}, [], where={'exc': info['type']})
    # counting without generating (cold: no aggregate cache on disk because cache=False wrote... it did write)
    try:
        genr.reset_agg_matrix_cache()
        g2 = mx.AggregateAssignmentMatrixGenerator(B.make_settings(cs))
        col.count('monitor_count_evaluations')
        with np.errstate(over='raise', invalid='raise'):
            c_sum = g2.count_all_matrices(max_by_existence=False)
            c_max = g2.count_all_matrices(max_by_existence=True)
        if c_sum != total or c_max != biggest:
            col.violation('count_differs_from_enumeration', cs, {'count_sum': c_sum, 'count_max': c_max,
                                                                 'enumerated_sum': total, 'enumerated_max': biggest},
                          [], where={'cache': 'cold'})
        g2.get_agg_matrix(cache=True)
        g3 = mx.AggregateAssignmentMatrixGenerator(B.make_settings(cs))
        w_sum = g3.count_all_matrices(max_by_existence=False)
        w_max = g3.count_all_matrices(max_by_existence=True)
        if w_sum != total or w_max != biggest:
            col.violation('count_differs_from_enumeration', cs, {'count_sum': w_sum, 'count_max': w_max,
                                                                 'enumerated_sum': total, 'enumerated_max': biggest},
                          [], where={'cache': 'warm'})
        g3.reset_agg_matrix_cache()
    except Exception as e:  # noqa
        info = D.exc_info(e)
        col.violation('count_exception', cs, info, [], where={'exc': info['type'], 'site': info['site']})
    # order independence of the public entry points: from a cold cache, enumerate ONE pattern first, then count and
    # enumerate everything with the same and with a fresh generator (the entry points share on-disk caches)
    if len(pats) > 1:
        rnd = gen.rng_for('c09order', S.digest(cs))
        try:
            genr.reset_agg_matrix_cache()
            g4 = mx.AggregateAssignmentMatrixGenerator(B.make_settings(cs))
            p0 = pats[rnd.randrange(len(pats))]
            col.count('monitor_order_evaluations')
            first = rnd.choice(['iter_matrices', 'iter_n', 'count_then_iter'])
            col.count('order_first_' + first)
            if first == 'iter_n':
                list(g4.iter_n_sources_targets(existence=B.make_existence(p0)))
            else:
                if first == 'count_then_iter':
                    g4.count_all_matrices()
                it = sorted(tuple(tuple(int(v) for v in row) for row in m)
                            for m, _ in g4.iter_matrices(existence=B.make_existence(p0)))
                if it != sorted(R.settings_matrices(cs, p0)):
                    col.violation('enumeration_differs_from_brute_force', cs,
                                  {'pattern': p0, 'n_ref': len(R.settings_matrices(cs, p0)), 'n_got': len(it),
                                   'order': first}, [], where={'dir': 'order_first', 'order': first})
            for gx, label in ((g4, 'same_generator'),
                              (mx.AggregateAssignmentMatrixGenerator(B.make_settings(cs)), 'fresh_generator')):
                o_sum = gx.count_all_matrices(max_by_existence=False)
                o_max = gx.count_all_matrices(max_by_existence=True)
                if o_sum != total or o_max != biggest:
                    col.violation('count_differs_from_enumeration', cs,
                                  {'count_sum': o_sum, 'count_max': o_max, 'enumerated_sum': total,
                                   'enumerated_max': biggest, 'order': first, 'generator': label}, [],
                                  where={'cache': 'after_single_pattern'})
                    break
                agg2 = gx.get_agg_matrix(cache=True)
                bad = None
                for p in pats:
                    arr = agg2.get(B.make_existence(p))
                    got2 = set() if arr is None else {tuple(tuple(int(v) for v in row) for row in m) for m in arr}
                    if got2 != set(R.settings_matrices(cs, p)):
                        bad = {'pattern': p, 'n_ref': len(set(R.settings_matrices(cs, p))), 'n_got': len(got2),
                               'order': first, 'generator': label, 'first_pattern': p0}
                        break
                if bad:
                    col.violation('enumeration_differs_from_brute_force', cs, bad, [],
                                  where={'dir': 'after_single_pattern'})
                    break
            g4.reset_agg_matrix_cache()
        except Exception as e:  # noqa
            info = D.exc_info(e)
            col.violation('agg_matrix_exception', cs, info, [], where={'exc': info['type'], 'site': info['site'],
                                                                       'phase': 'order'})
    # in-place edits of one settings object (the repository's own tests do this): a generator built from the edited
    # object must enumerate / count / validate the EDITED settings, whatever the object was used for before
    if kind != 'exhaustive' or (len(cs['src']) * len(cs['tgt']) > 1 and S.digest(cs)[0] in '01'):
        import copy
        rnd = gen.rng_for('c09edit', S.digest(cs))
        try:
            st = B.make_settings(cs)
            g5 = mx.AggregateAssignmentMatrixGenerator(st)
            g5.reset_agg_matrix_cache()
            g5.get_agg_matrix(cache=True)
            g5.count_all_matrices()
            cs2 = copy.deepcopy(cs)
            edit = rnd.choice(['excluded', 'excluded', 'parallel', 'rep'])
            if edit == 'excluded':
                if cs2.get('excluded'):
                    cs2['excluded'] = []
                    st.excluded = None
                else:
                    ij = [rnd.randrange(len(cs['src'])), rnd.randrange(len(cs['tgt']))]
                    cs2['excluded'] = [ij]
                    st.excluded = [(st.src[ij[0]], st.tgt[ij[1]])]
            elif edit == 'parallel':
                cs2['max_conn_parallel'] = 1 if cs.get('max_conn_parallel') != 1 else 2
                st.max_conn_parallel = cs2['max_conn_parallel']
            else:
                k_ = rnd.randrange(len(cs['src']))
                cs2['src'][k_]['rep'] = not cs2['src'][k_].get('rep', False)
                st.src[k_].rep = cs2['src'][k_]['rep']
            col.count('monitor_inplace_edit_evaluations')
            col.count('inplace_edit_' + edit)
            g6 = mx.AggregateAssignmentMatrixGenerator(st)
            agg6 = g6.get_agg_matrix(cache=True)
            tot6 = 0
            for p in pats:
                ex = B.make_existence(p) if p is not None else mx.NodeExistence()
                want6 = set(R.settings_matrices(cs2, p))
                arr = agg6.get(ex)
                got6 = set() if arr is None else {tuple(tuple(int(v) for v in row) for row in m) for m in arr}
                tot6 += len(want6)
                if got6 != want6:
                    col.violation('enumeration_differs_from_brute_force', cs2,
                                  {'pattern': p, 'n_ref': len(want6), 'n_got': len(got6), 'edit': edit,
                                   'before_edit': cs}, [], where={'dir': 'after_inplace_edit', 'edit': edit})
                    break
            else:
                c6 = mx.AggregateAssignmentMatrixGenerator(st).count_all_matrices(max_by_existence=False)
                if c6 != tot6:
                    col.violation('count_differs_from_enumeration', cs2, {'count_sum': c6, 'enumerated_sum': tot6,
                                                                          'edit': edit, 'before_edit': cs}, [],
                                  where={'cache': 'after_inplace_edit'})
            g6.reset_agg_matrix_cache()
            g5.reset_agg_matrix_cache()
        except Exception as e:  # noqa
            info = D.exc_info(e)
            col.violation('agg_matrix_exception', cs, info, [], where={'exc': info['type'], 'site': info['site'],
                                                                       'phase': 'inplace_edit'})
    if nontrivial:
        col.nontrivial.add(S.digest(cs))
        if len(col.samples) < 2:
            col.sample({'settings': cs, 'matrices_total': total})


def worker(task, col):
    import adsg_core.optimization.assign_enc.matrix as mx
    M.Tap(mx.AggregateAssignmentMatrixGenerator, 'validate_matrix', counter=col.count)
    M.Tap(mx.AggregateAssignmentMatrixGenerator, 'get_agg_matrix', counter=col.count)
    col.count('mode_' + task.get('mode', 'jit'))
    if task.get('replay'):
        common.guard(col, check_settings, task['replay']['violation']['spec'], col, 'replay')
        return
    if task.get('kind') == 'exhaustive':
        stride, offset = task['stride'], task['offset']
        for i, cs in enumerate(exhaustive_settings()):
            if i % stride == offset:
                common.guard(col, check_settings, cs, col, 'exhaustive')
        return
    for i in range(task['lo'], task['hi']):
        rnd = gen.rng_for('C09', task['seed'], i)
        r = rnd.random()
        if r < .12:
            # consecutive degree ranges up to 3 and 4 (repeatable pairs that can carry three parallel connections)
            cs = gen.gen_settings(rnd, n_src=(1, 2), n_tgt=(1, 2), p_patterns=.8, p_parallel=0., p_excl=.2,
                                  alphabet=[{'min': 0, 'max': 3}, {'min': 1, 'max': 3}, {'list': [0, 1, 2, 3]},
                                            {'min': 0, 'max': 4}, {'list': [0, 1]}, {'list': [1, 2]}, {'min': 1}])
            for nd in cs['src'] + cs['tgt']:
                nd['rep'] = nd['rep'] or rnd.random() < .6
        elif r < .5:
            cs = gen.gen_settings(rnd, alphabet=gen.DEG_ALPHABET)
        elif r < .8:
            cs = gen.gen_settings(rnd, n_src=(2, 3), n_tgt=(2, 3), p_override=.5, p_patterns=.8)
        else:
            cs = gen.gen_settings(rnd, n_src=(1, 2), n_tgt=(1, 2), p_override=.7, p_patterns=1., p_parallel=.4)
        common.guard(col, check_settings, cs, col, 'random')


def main(run):
    if run.replay:
        run.map([{'replay': common.load_replay(run.replay)}])
        exhaustive = False
    else:
        tasks = []
        n_ex = n_exhaustive()
        if run.tier == 'quick':
            # a seeded 1/160 slice of the bounded-exhaustive space + random settings
            stride = 160 * run.jobs
            for j in range(run.jobs):
                tasks.append({'kind': 'exhaustive', 'stride': stride, 'offset': (run.seed * 7919 + j) % stride})
            tasks += common.shard_tasks(640, run.jobs)
            exhaustive = False
        else:
            stride = 64
            for j in range(stride):
                tasks.append({'kind': 'exhaustive', 'stride': stride, 'offset': j})
            tasks += common.shard_tasks(6000, 32)
            # sanitizer-mode re-executions of the random workload: numba bounds checking / JIT disabled
            for mode, env in (('boundscheck', {'NUMBA_BOUNDSCHECK': '1'}), ('nojit', {'NUMBA_DISABLE_JIT': '1'})):
                for t in common.shard_tasks(1200, 8):
                    t['_env'] = env
                    t['mode'] = mode
                    tasks.append(t)
            exhaustive = True
        run.map(tasks, timeout=3400)
    run.finish('connector settings: bounded-exhaustive alphabet %d types x rep for <=2x2 nodes x all existence '
               'patterns x 0/1 exclusions (%d settings; thorough: all, quick: seeded slice) + random settings up to '
               '3x3 with degree overrides and explicit parallel limits; oracle = brute-force matrices; validate_matrix '
               'on every matrix of the cube {0..dmax+1}^(n x m) (sampled when > 6000); non-trivial = some pattern '
               'with >=2 valid matrices' % (len(ALPHA), n_exhaustive()),
               min_nontrivial=20, deciding=['monitor_pattern_evaluations', 'monitor_validate_evaluations',
                                            'monitor_count_evaluations'],
               exhaustive=exhaustive,
               assumptions=['default parallel limit P = max(2, largest finite degree among effective nodes) as '
                            'documented in get_max_conn_parallel', 'thorough tier repeats the random workload under '
                            'NUMBA_BOUNDSCHECK=1 and NUMBA_DISABLE_JIT=1'])
