from .hist import worker, main  # noqa
