"""C08: design space graphs behave as persistent values.

Snapshot monitor: every DSG object constructed during the workload is registered (weakly) with the observation
taken at its first quiescent point; after every driver operation all still-live objects are re-observed."""
import itertools
from .. import gen, spec as S, build as B, observe as O, refmodel as R, drive as D, monitor as M
from . import common

PROFILES = [
    ('sel', .2, dict(p_incompat=.4, n_steps=(3, 9))),
    ('sel_shared', .1, dict(allow=('shared_option',), p_incompat=.3, p_opt_existing=.4, p_multi_choice=.3,
                            p_constraint=.5)),
    ('sel_con', .1, dict(p_incompat=.3, p_constraint=1.0, n_steps=(5, 10))),
    ('dv', .15, dict(p_incompat=.2, n_dv=(1, 3), p_dv_link=.5, n_metric=(0, 2), n_steps=(3, 8))),
    ('conn_grp', .3, dict(p_incompat=.15, n_conn=(1, 1), p_grp=.7, p_conn_cond=.7, p_side_cond=.35, p_grp_open=.3, p_grp_twin=.35, n_steps=(2, 6),
                          max_sel=3, max_opts=3)),
    ('conn', .15, dict(p_incompat=.15, n_conn=(1, 2), p_grp=.2, n_steps=(2, 6), max_sel=3, max_opts=3,
                       n_dv=(0, 1))),
]


def case_spec(seed, i):
    rnd = gen.rng_for('C08', seed, i)
    r = rnd.random()
    acc = 0
    for name, w, kw in PROFILES:
        acc += w
        if r < acc:
            break
    return name, gen.gen_spec(rnd, **kw)


def conn_sets_obs(b):
    def f(dsg):
        try:
            cs = O.conn_sets(dsg, b)
            return sorted((k, S.digest(v), len(v)) for k, v in cs.items())
        except Exception as e:  # noqa
            return 'ERR:' + type(e).__name__
    return f


def full_obs(b, order=None):
    """`order` (a dict the driver flips between quiescent points): with order['conn_first'] the connection sets are
    asked BEFORE anything else -- `feasible` refreshes node-level state that the connection-set query relies on, so a
    fixed order of questions would hide a connection-set query that reads stale shared state."""
    cso = conn_sets_obs(b)

    def f(dsg):
        first = cso(dsg) if order and order.get('conn_first') else None
        ob = O.instance(dsg, b, deep=True)
        ob['conn_sets'] = first if first is not None else cso(dsg)
        try:
            ob['taken_single'] = None  # class-level record: observed separately (see below)
        except Exception:  # noqa
            pass
        return ob
    return f


def first_diff(a, b_):
    for k in a:
        if a.get(k) != b_.get(k):
            return k
    return '?'


def check_case(sp, col, shard, seed_parts, n_ops):
    import adsg_core.graph.adsg_nodes as an
    from adsg_core.optimization.graph_processor import GraphProcessor
    from adsg_core.graph.choice_constraints import ChoiceConstraintType
    col.evaluations += 1
    col.count('cases_' + shard)
    sp = S.normalize(sp)
    flags = S.classify(sp)
    rnd = gen.rng_for('C08ops', *seed_parts)
    b = B.build(sp)
    if b.dsg is None:
        col.count('skipped_build_error')
        return
    q_order = {'conn_first': False}
    reg = M.Registry(full_obs(b, q_order), counter=col.count)
    reg.pair_probe = [('feasible', lambda g: bool(g.feasible)), ('conn_sets', conn_sets_obs(b))]
    tap = M.MutationTap(b.name)
    reg.install()
    tap.install()
    live = []          # graphs the driver holds on to
    ops = []
    n_viol = [0]
    reported = set()

    def after(op):
        ops.append(op)
        q_order['conn_first'] = len(ops) % 2 == 1
        reg.settle()
        col.count('monitor_quiescent_points')
        for serial, birth, now in reg.reobserve():
            keys = [k for k in birth if birth.get(k) != now.get(k)] or ['?']
            for k in keys:
                if k == 'deg' and 'deg' in reported:
                    continue   # the raw shared attribute: reported once per case, the sequence goes on
                reported.add(k)
                n_viol[0] += 1
                col.violation('existing_graph_changed', sp,
                              {'changed': k, 'object_serial': serial, 'before': birth.get(k), 'after': now.get(k),
                               'after_query_of_object': now.get('after_query_of_object'),
                               'after_op': op, 'ops': ops[-6:], 'recent_node_writes': tap.log[-6:]},
                              flags, where={'changed': k, 'op': op[0]})
            if [k for k in keys if k != 'deg']:
                return True
        return False

    try:
        # register the base graph by constructing a copy through the API (the base object predates the registry)
        base = b.dsg.copy()
        live.append(base)
        if after(('copy', 'base')):
            return
        gp = None
        for step in range(n_ops):
            g = rnd.choice(live)
            r = rnd.random()
            try:
                if r < .12:
                    live.append(g.copy())
                    op = ('copy',)
                elif r < .5:
                    nxt = [n for n in g.get_ordered_next_choice_nodes() if isinstance(n, an.SelectionChoiceNode)]
                    if not nxt:
                        cn = [n for n in g.get_ordered_next_choice_nodes() if isinstance(n, an.ConnectionChoiceNode)]
                        if not cn:
                            continue
                        c = rnd.choice(cn)
                        sets = list(itertools.islice(c.iter_conn_edges(g), 30))
                        if not sets:
                            continue
                        live.append(g.get_for_apply_connection_choice(c, rnd.choice(sets)))
                        op = ('apply_conn', b.name(c))
                    else:
                        c = rnd.choice(nxt)
                        opts = g.get_option_nodes(c)
                        if not opts:
                            continue
                        o = rnd.choice(opts)
                        live.append(g.get_for_apply_selection_choice(c, o))
                        op = ('apply_sel', b.name(c), b.name(o))
                elif r < .58:
                    cns = [n for n in g.graph.nodes if isinstance(n, an.SelectionChoiceNode)
                           and g.is_constrained_choice(n) is None]
                    by_n = {}
                    for n in cns:
                        by_n.setdefault(len(g.get_option_nodes(n)), []).append(n)
                    grp = [v for k, v in by_n.items() if len(v) >= 2 and k >= 2]
                    if not grp:
                        continue
                    # (two, sometimes three choices: three 2-option choices under PERMUTATION leave no option at all)
                    pair = rnd.sample(grp[0], 3 if len(grp[0]) >= 3 and rnd.random() < .4 else 2)
                    cp = g.copy()
                    live.append(cp.constrain_choices(rnd.choice(list(ChoiceConstraintType)), pair))
                    op = ('constrain_on_copy', [b.name(n) for n in pair])
                elif r < .8:
                    if gp is None:
                        gp = GraphProcessor(b.dsg.copy())
                        _ = gp.des_vars
                    x = [rnd.randrange(dv.n_opts) if dv.is_discrete else dv.bounds[0] + rnd.random() *
                         (dv.bounds[1] - dv.bounds[0]) for dv in gp.des_vars]
                    inst, _, _ = gp.get_graph(x)
                    live.append(inst)
                    op = ('decode', x)
                elif r < .9:
                    dvn = list(g.des_var_nodes)
                    if not dvn:
                        continue
                    d = g.copy()
                    n = rnd.choice(dvn)
                    d.set_des_var_value(n, 0 if n.is_discrete else n.bounds[0])
                    for mn in d.metric_nodes:
                        d.set_metric_value(mn, 1.25)
                    live.append(d)
                    op = ('set_values_on_copy', b.name(n))
                else:
                    cn = [n for n in g.graph.nodes if isinstance(n, an.ConnectionChoiceNode)]
                    if not cn:
                        continue
                    list(itertools.islice(rnd.choice(cn).iter_conn_edges(g), 10))
                    op = ('iter_conn_edges',)
            except Exception as e:  # noqa -- crashes of the operations themselves are other properties' business
                col.count('op_exception_' + type(e).__name__)
                continue
            col.count('op_' + op[0])
            if len(live) > 14:
                live.pop(rnd.randrange(1, len(live)))
            if after(op):
                break
    finally:
        reg.uninstall()
        tap.uninstall()
    if len(ops) >= 4:
        col.nontrivial.add(S.digest(sp))
        if len(col.samples) < 2:
            col.sample({'spec': common.short(sp), 'ops': ops[:8], 'objects_registered': reg.serial})
    col.count('objects_registered', reg.serial)


def check_class_record(col):
    """the record of automatically taken choices is class-level state: observable through any graph"""
    import adsg_core as ac
    from adsg_core.graph.adsg_basic import BasicDSG
    n = [ac.NamedNode('N%d' % i) for i in range(8)]
    g1 = BasicDSG()
    g1.add_selection_choice('A', n[0], [n[1], n[2]])
    g1.add_selection_choice('B', n[1], [n[3]])
    g1 = g1.set_start_nodes({n[0]})
    c = g1.get_ordered_next_choice_nodes()[0]
    i1 = g1.get_for_apply_selection_choice(c, n[1])
    rec1 = [(x.decision_id, getattr(o, 'name', None)) for x, o in i1.get_taken_single_selection_choices()]
    m = [ac.NamedNode('M%d' % i) for i in range(8)]
    g2 = BasicDSG()
    g2.add_selection_choice('X', m[0], [m[1], m[2]])
    g2 = g2.set_start_nodes({m[0]})
    g2.get_for_apply_selection_choice(g2.get_ordered_next_choice_nodes()[0], m[2])
    rec1b = [(x.decision_id, getattr(o, 'name', None)) for x, o in i1.get_taken_single_selection_choices()]
    col.count('monitor_class_record_evaluations')
    if rec1 != rec1b:
        col.violation('taken_single_choices_record_changed', {'corpus': 'two unrelated graphs'},
                      {'before': rec1, 'after': rec1b}, [], where={'changed': 'taken_single'})


def constrain_scenarios(col, seed):
    """Constraining choices on a COPY, for every constraint type and 2..3 choices of 2..3 options (including the
    combinations that leave a choice without any option): the original graph and an earlier copy keep reporting the same."""
    from adsg_core.graph.choice_constraints import ChoiceConstraintType
    for n_ch in (2, 3):
        for n_opt in (2, 3):
            for ct in ChoiceConstraintType:
                nodes = [{'id': 'R', 'kind': 'named'}]
                sel = []
                for i in range(n_ch + 1):
                    opts = ['O%d_%d' % (i, j) for j in range(n_opt)]
                    nodes += [{'id': o, 'kind': 'named'} for o in opts]
                    sel.append({'key': 'C%d' % i, 'id': 'C%d' % i, 'origin': 'R', 'options': opts})
                sp = S.normalize({'nodes': nodes, 'edges': [], 'sel': sel, 'start': ['R']})
                b = B.build(sp)
                if b.dsg is None:
                    continue
                col.evaluations += 1
                col.count('monitor_constrain_scenarios')
                g = b.dsg
                obs = full_obs(b)
                earlier = g.copy()
                before_g, before_e = obs(g), obs(earlier)
                try:
                    g.copy().constrain_choices(ct, [b.sel['C%d' % i] for i in range(n_ch)])
                except Exception:  # noqa  (an explicit rejection is fine; what matters is what the others report)
                    col.count('constrain_scenario_rejected')
                for name_, gg, bef in (('original', g, before_g), ('earlier_copy', earlier, before_e)):
                    now = obs(gg)
                    keys = [k for k in bef if bef[k] != now.get(k)]
                    if keys:
                        col.violation('existing_graph_changed', sp,
                                      {'changed': keys[0], 'object': name_, 'before': bef[keys[0]], 'after': now.get(keys[0]),
                                       'after_op': ['constrain_on_copy', ct.name, n_ch, n_opt]}, [],
                                      where={'changed': keys[0], 'op': 'constrain_on_copy'})
                        break
                col.nontrivial.add('constrain|%s|%d|%d' % (ct.name, n_ch, n_opt))


def worker(task, col):
    from adsg_core.graph.adsg import DSG
    M.Tap(DSG, 'get_for_adjusted', counter=col.count)
    if task.get('replay'):
        v = task['replay']['violation']
        common.guard(col, check_case, v['spec'], col, 'replay', v.get('seed_parts', ['replay']), 40)
        return
    if task['shard'] == 1:
        common.guard(col, constrain_scenarios, col, task['seed'])
    if task['shard'] == 0:
        check_class_record(col)
        for c in common.corpus('C08'):
            for rep in range(3):
                common.guard(col, check_case, c['spec'], col, 'corpus', ['corpus', c['file'], rep], task['n_ops'])
    for i in range(task['lo'], task['hi']):
        name, sp = case_spec(task['seed'], i)
        n0 = len(col.violations)
        common.guard(col, check_case, sp, col, name, ['C08', task['seed'], i], task['n_ops'])
        for v in col.violations[n0:]:
            v['seed_parts'] = ['C08', task['seed'], i]


def main(run):
    if run.replay:
        run.map([{'replay': common.load_replay(run.replay), 'shard': 0}])
    else:
        quick = run.tier == 'quick'
        run.map(common.shard_tasks(400 if quick else 8000, run.jobs, n_ops=14 if quick else 30), timeout=3400)
    run.finish('generated DSGs (selection, shared options, constraints, DV/metric nodes, connection choices with '
               'grouping nodes over conditional members) x random sequences of {copy, apply selection choice, apply '
               'connection choice, constrain on a copy, decode through a processor, set values on a copy, '
               'iter_conn_edges}; every DSG object constructed is registered weakly and re-observed (nodes, edges, '
               'feasible, final, next choices, option lists, connector degrees, valid connection sets, stored values, '
               'constraints) after every operation; non-trivial = >=4 operations executed',
               min_nontrivial=20, deciding=['monitor_quiescent_points', 'reobservations', 'DSG.get_for_adjusted'],
               assumptions=['an object is observed for the first time at the quiescent point after the operation '
                            'that created it'])
