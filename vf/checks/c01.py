from .decode import worker, main  # noqa
