"""C17: metrics are classified and evaluated according to the documented contract."""
import math
from .. import gen, spec as S, build as B, observe as O, refmodel as R, drive as D, monitor as M
from . import common


def case_spec(seed, i):
    rnd = gen.rng_for('C17', seed, i)
    kw = dict(p_incompat=.2, n_metric=(1, 4), n_steps=(3, 9), n_dv=(0, 1))
    if rnd.random() < .25:
        kw.update(n_conn=(1, 1), n_steps=(2, 5), max_sel=2, max_opts=3, max_side=2, p_excl=.7, p_conn_cond=.7,
                  p_metric_below_conn=.6)
    sp = gen.gen_spec(rnd, **kw)
    # make ambiguous undeclared metrics (error case) rarer: half of them get a declared role
    for n in sp['nodes']:
        if n['kind'] == 'metric' and n.get('dir') is not None and n.get('ref') is not None and n.get('type') is None:
            if rnd.random() < .5:
                n['type'] = rnd.choice(['OBJECTIVE', 'CONSTRAINT'])
        # "either role" stated explicitly is the same as stating nothing: still ambiguous when both roles are possible
        if n['kind'] == 'metric' and n.get('type') is None and rnd.random() < .2:
            n['type'] = 'OBJ_OR_CON'
    # same-named metrics (one "mass" per subsystem), told apart by idx
    mets = [n for n in sp['nodes'] if n['kind'] == 'metric']
    if len(mets) >= 2 and rnd.random() < .3:
        for k, n in enumerate(rnd.sample(mets, rnd.randint(2, len(mets)))):
            n['label'], n['idx'] = 'mass', k
    return 'gen', sp


def expected_roles(sp, perm, everywhere, present_anywhere):
    """role per metric node per the documented contract: name -> set of admissible roles out of
    {'obj', 'con', None, 'error'}.  perm = derivation closure of the start nodes (certainly permanent);
    everywhere = nodes present in every reference architecture (may count as permanent)."""
    out = {}
    for n in sp['nodes']:
        if n['kind'] != 'metric' or n['id'] not in present_anywhere:
            continue
        t, d, r = n.get('type'), n.get('dir'), n.get('ref')
        can_con = d is not None and r is not None
        roles = set()
        for is_perm in ({True} if n['id'] in perm else ({True, False} if n['id'] in everywhere else {False})):
            can_obj = d is not None and is_perm
            if t == 'NONE':
                roles.add(None)
            elif can_obj and can_con:
                roles.add({'OBJECTIVE': 'obj', 'CONSTRAINT': 'con'}.get(t, 'error'))
            elif can_obj:
                roles.add('obj')
            elif can_con:
                roles.add('con')
            else:
                roles.add(None)
        out[n['id']] = roles
    return out


def check_case(sp, col, shard, seed_parts):
    from adsg_core.optimization.evaluator import DSGEvaluator
    from adsg_core.optimization.hierarchy.registry import SelChoiceEncoderType
    col.evaluations += 1
    sp = S.normalize(sp)
    flags = S.classify(sp)
    model = R.Model(sp)
    try:
        archs = model.architectures(limit=3000)
    except OverflowError:
        col.count('skipped_ref_too_large')
        return
    if not archs:
        col.count('skipped_no_architecture')
        return
    perm = model.permanent()
    reachable = set()
    for a in archs:
        reachable |= a['nodes']
    b = B.build(sp)
    if b.dsg is None:
        return
    in_graph = {b.name(n) for n in b.dsg.graph.nodes}
    everywhere = set.intersection(*[set(a['nodes']) for a in archs])
    want = expected_roles(sp, perm, everywhere, in_graph)
    rnd = gen.rng_for('C17e', *seed_parts)
    plan = {}

    class Ev(DSGEvaluator):
        def _evaluate(self, dsg, metric_nodes):
            out = {}
            for mn in metric_nodes:
                mode = plan.get(b.name(mn), 'value')
                if mode == 'value':
                    out[mn] = VALUES[b.name(mn)]
                elif mode == 'nan':
                    out[mn] = math.nan
                # 'missing': not returned
            return out

    VALUES = {n['id']: round(rnd.uniform(-5, 5), 3) for n in sp['nodes'] if n['kind'] == 'metric'}
    try:
        ev = Ev(b.dsg, encoder_type=SelChoiceEncoderType.COMPLETE)
        _ = ev.des_vars
    except Exception:  # noqa
        col.count('skipped_construct_failed')
        return
    col.count('monitor_classification_evaluations')
    err = None
    try:
        objs = [(o.name, b.name(o.node), o.sign) for o in ev.objectives]
        cons = [(c.name, b.name(c.node), c.sign, c.ref) for c in ev.constraints]
    except RuntimeError as e:
        err = e
        objs = cons = None
    except Exception as e:  # noqa
        info = D.exc_info(e)
        col.violation('classification_wrong_exception', sp, {'exc': info, 'expected': want}, flags,
                      where={'exc': info['type']})
        return
    ambiguous = [k for k, v in want.items() if v == {'error'}]
    maybe_ambiguous = [k for k, v in want.items() if 'error' in v]
    if err is not None and maybe_ambiguous and not ambiguous:
        col.count('ambiguous_rejected')
        return
    if ambiguous:
        if err is None:
            col.violation('ambiguous_metric_accepted', sp, {'ambiguous': ambiguous, 'objectives': objs,
                                                            'constraints': cons}, flags)
        else:
            col.count('ambiguous_rejected')
            col.nontrivial.add(S.digest(sp))
        return
    if err is not None:
        col.violation('unexpected_classification_error', sp, {'exc': D.exc_info(err), 'expected': want}, flags)
        return
    got = {}
    for _, nmx, _s in objs:
        got[nmx] = 'obj' if nmx not in got else 'dup'
    for _, nmx, _s, _r in cons:
        got[nmx] = 'con' if nmx not in got else 'both'
    for name, roles in want.items():
        role = sorted(roles, key=str)
        if got.get(name) not in roles:
            node = model.nodes[name]
            sym = 'metric_role_differs'
            if got.get(name) == 'obj' and name not in everywhere:
                sym = 'conditional_metric_used_as_objective'
            elif node.get('type') == 'NONE' and got.get(name):
                sym = 'none_metric_used'
            col.violation(sym, sp, {'metric': node, 'permanent': name in perm, 'in_every_architecture': name in everywhere, 'expected': role,
                                    'got': got.get(name)}, flags, where={'expected': str(role), 'got': str(got.get(name))})
            return
    for o_name, nmx, sign in objs:
        d = model.nodes[nmx]['dir']
        if (sign < 0) != (d <= 0):
            col.violation('objective_direction_wrong', sp, {'metric': model.nodes[nmx], 'sign': sign}, flags)
    for c_name, nmx, sign, ref in cons:
        node = model.nodes[nmx]
        if (sign < 0) != (node['dir'] <= 0) or ref != node['ref']:
            col.violation('constraint_definition_wrong', sp, {'metric': node, 'sign': sign, 'ref': ref}, flags)
    # ---- evaluation on every architecture (all valid design vectors) with four evaluator behaviours ----
    try:
        res = ev.get_all_discrete_x()
    except Exception:  # noqa
        res = None
    if res is None:
        return
    X, _A = res
    n_eval = 0
    order0 = None
    for r in list(X)[:60]:
        try:
            g, x1, a1 = ev.get_graph(list(r))
        except Exception:  # noqa
            continue
        present = {b.name(n) for n in g.graph.nodes}
        for mode in ('value', 'missing', 'nan', 'mixed'):
            plan.clear()
            for name in VALUES:
                plan[name] = mode if mode != 'mixed' else rnd.choice(['value', 'missing', 'nan'])
            col.count('monitor_evaluate_evaluations')
            n_eval += 1
            try:
                ov, cv = ev.evaluate(g)
            except Exception as e:  # noqa
                info = D.exc_info(e)
                col.violation('evaluate_exception', sp, {'mode': mode, 'exc': info}, flags, where={'exc': info['type']})
                return
            if len(ov) != len(objs) or len(cv) != len(cons):
                col.violation('evaluate_wrong_length', sp, {'n_obj': [len(ov), len(objs)],
                                                            'n_con': [len(cv), len(cons)]}, flags)
                return

            def expect(name, absent_value):
                if name not in present:
                    return absent_value
                if plan[name] == 'value':
                    return VALUES[name]
                return math.nan

            for (o_name, nmx, _s), v in zip(objs, ov):
                e_ = expect(nmx, math.nan)
                if not _same(v, e_):
                    col.violation('objective_value_wrong', sp, {'metric': nmx, 'mode': plan[nmx], 'got': v,
                                                                'expected': e_, 'present': nmx in present}, flags)
                    return
            for (c_name, nmx, _s, ref), v in zip(cons, cv):
                e_ = expect(nmx, ref)
                if not _same(v, e_):
                    sym = 'absent_constraint_not_reference' if nmx not in present else 'constraint_value_wrong'
                    col.violation(sym, sp, {'metric': nmx, 'mode': plan[nmx], 'got': v, 'expected': e_,
                                            'present': nmx in present}, flags)
                    return
            # stored metric values on the instance
            mv = {b.name(k): v for k, v in g.metric_values.items()}
            for name in present & set(VALUES):
                e_ = VALUES[name] if plan[name] == 'value' else math.nan
                if name in mv and not _same(mv[name], e_):
                    col.violation('stored_metric_value_wrong', sp, {'metric': name, 'stored': mv[name], 'expected': e_},
                                  flags)
                    return
        order = ([o.name for o in ev.objectives], [c.name for c in ev.constraints])
        if order0 is None:
            order0 = order
        elif order != order0:
            col.violation('output_order_unstable', sp, {'first': order0, 'now': order}, flags)
            return
    if n_eval and (objs or cons):
        col.nontrivial.add(S.digest(sp))
        if len(col.samples) < 2:
            col.sample({'spec': common.short(sp), 'metrics': [n for n in sp['nodes'] if n['kind'] == 'metric'],
                        'objectives': objs, 'constraints': cons, 'evaluations': n_eval})


def _same(a, b_):
    if isinstance(a, float) and math.isnan(a):
        return isinstance(b_, float) and math.isnan(b_)
    if isinstance(b_, float) and math.isnan(b_):
        return False
    return a == b_


def incremental_case(sp, col, seed_parts):
    """A design space graph that is extended after it has been classified once: build, classify (objectives /
    constraints of an evaluator), add a metric node under a permanent node to the SAME graph object, initialise again,
    classify with a new evaluator.  The roles must be those of a graph built in one go with the extra metric."""
    import copy
    import adsg_core as ac
    from adsg_core.optimization.evaluator import DSGEvaluator
    from adsg_core.optimization.hierarchy.registry import SelChoiceEncoderType
    sp = S.normalize(sp)
    flags = S.classify(sp)
    if sp['constraints'] or S.is_exotic(flags):
        return
    model = R.Model(sp)
    perm = sorted(n for n in model.permanent() if model.nodes[n]['kind'] == 'named')
    if not perm:
        return
    rnd = gen.rng_for('C17inc', *seed_parts)
    parent = rnd.choice(perm)
    kind = rnd.choice(['dir_only', 'dir_ref_declared_obj', 'dir_ref'])
    extra = {'id': 'MX', 'kind': 'metric', 'dir': rnd.choice([-1, 1]),
             'ref': None if kind == 'dir_only' else 1.5, 'type': 'OBJECTIVE' if kind == 'dir_ref_declared_obj' else None}
    sp2 = copy.deepcopy(sp)
    sp2.pop('features', None)
    sp2['nodes'].append(extra)
    sp2['edges'].append([parent, 'MX'])

    def roles(ev, b_):
        try:
            return {'obj': sorted(b_.name(o.node) for o in ev.objectives),
                    'con': sorted(b_.name(c.node) for c in ev.constraints)}
        except RuntimeError as e:
            return {'error': 'RuntimeError'}
    b = B.build(sp)
    b_fresh = B.build(sp2)
    if b.dsg is None or b_fresh.dsg is None:
        return
    try:
        ev1 = DSGEvaluator(b.dsg, encoder_type=SelChoiceEncoderType.COMPLETE)
        roles(ev1, b)                                   # first classification on the graph object
        mx_node = B.make_node(extra)
        b.node['MX'] = mx_node
        b._name[mx_node] = 'MX'
        b.dsg.add_edge(b.node[parent], mx_node)         # extend the same object in place ...
        dsg2 = b.dsg.set_start_nodes({b.node[s_] for s_ in sp['start']})   # ... and initialise it again
        got = roles(DSGEvaluator(dsg2, encoder_type=SelChoiceEncoderType.COMPLETE), b)
        want = roles(DSGEvaluator(b_fresh.dsg, encoder_type=SelChoiceEncoderType.COMPLETE), b_fresh)
    except Exception as e:  # noqa
        col.count('incremental_skipped_' + type(e).__name__)
        return
    col.count('monitor_incremental_evaluations')
    if got != want:
        col.violation('metric_role_differs', sp2, {'incremental': got, 'built_in_one_go': want, 'added_metric': extra,
                                                   'under': parent}, flags, where={'history': 'extended_after_classification'})


def worker(task, col):
    from adsg_core.optimization.evaluator import DSGEvaluator
    M.Tap(DSGEvaluator, 'evaluate', counter=col.count)
    if task.get('replay'):
        v = task['replay']['violation']
        common.guard(col, check_case, v['spec'], col, 'replay', ['replay'])
        return
    if task['shard'] == 0:
        for c in common.corpus('C17'):
            common.guard(col, check_case, c['spec'], col, 'corpus', ['corpus', c['file']])
    for i in range(task['lo'], task['hi']):
        name, sp = case_spec(task['seed'], i)
        common.guard(col, check_case, sp, col, name, ['C17', task['seed'], i])
        if i % 3 == 0:
            common.guard(col, incremental_case, sp, col, ['C17', task['seed'], i])


def main(run):
    if run.replay:
        run.map([{'replay': common.load_replay(run.replay), 'shard': 0}])
    else:
        run.map(common.shard_tasks(640 if run.tier == 'quick' else 12000, run.jobs), timeout=3400)
    run.finish('generated DSGs with 1-4 metric nodes of every direction / reference / declared-type combination under '
               'permanent and conditional nodes; role table from the documentation; DSGEvaluator.evaluate on up to 60 '
               'architectures x evaluators returning complete / missing / NaN / mixed maps; non-trivial = at least one '
               'objective or constraint and one evaluation, or an ambiguous metric that must be rejected',
               min_nontrivial=20, deciding=['monitor_classification_evaluations', 'DSGEvaluator.evaluate'],
               assumptions=['"exists in every architecture" = permanent node (derivation closure of the start nodes)'])
