"""C05 / C15: operation histories on one long-lived GraphProcessor, every step compared with a freshly built twin.

C05: decoding is a pure function of (graph, fixed values, vector): history-, create-flag- and process-independent;
     returned instances are independent objects.
C15: fixing restricts exactly (subset law against the un-fixed enumeration), freeing restores, bad fixes rejected."""
import pickle
import itertools
import numpy as np
from .. import gen, spec as S, build as B, observe as O, refmodel as R, drive as D, monitor as M
from . import common
from .decode import obs_key

PROFILES = [
    ('sel', .26, dict(p_incompat=.4, n_steps=(3, 9))),
    ('sel_dv', .25, dict(p_incompat=.3, n_dv=(1, 3), p_dv_link=.3, n_steps=(3, 8), n_metric=(0, 2))),
    ('sel_con', .1, dict(p_incompat=.3, p_constraint=1.0, n_steps=(5, 10))),
    ('conn', .12, dict(p_incompat=.2, n_conn=(1, 1), n_steps=(2, 6), max_sel=3, max_opts=3, n_dv=(0, 1))),
    ('conn2', .06, dict(p_incompat=.1, n_conn=(2, 2), n_steps=(1, 4), max_sel=2, max_opts=3, p_grp=.1, max_side=2,
                        max_side_total=3, p_conn_cond=.3)),
    ('conn3', .06, dict(p_incompat=.1, n_conn=(3, 3), n_steps=(1, 3), max_sel=1, max_opts=2, p_grp=0., p_excl=.1,
                        p_conn_cond=.15, max_side=2, max_side_total=3)),
    ('dup_id', .1, dict(p_incompat=.3, p_dup_id=.6, n_dv=(0, 2))),
    ('shared_option', .05, dict(allow=('shared_option',), p_incompat=.3, p_opt_existing=.4, p_multi_choice=.3)),
]

OWN = {
    'C05': {'history_dependent_decode', 'create_flag_dependent', 'history_dependent_enumeration',
            'history_dependent_statistics', 'same_instance_returned_twice', 'instance_mutation_leaks',
            'pickle_changes_behaviour', 'history_exception', 'process_dependent_decode',
            'returned_instance_changed_later'},
    'C15': {'fixed_rows_not_subset', 'fixed_rows_lost', 'fixed_rows_wrong_value', 'fixed_count_mismatch',
            'fixed_decode_outside_subset', 'free_does_not_restore', 'fix_connection_variable_accepted',
            'fix_out_of_range_accepted', 'rejected_fix_changed_state', 'fixed_variable_still_listed',
            'unfixed_view_changed_while_fixed',
            'fix_exception', 'fixed_statistics_mismatch'},
}


def case_spec(prop, seed, i):
    rnd = gen.rng_for('hist', prop, seed, i)
    r = rnd.random()
    acc = 0
    if r > .95:
        return 'replica', gen.gen_replica(rnd)
    for name, w, kw in PROFILES:
        acc += w
        if r < acc:
            break
    return name, gen.gen_spec(rnd, **kw)


class Proc:
    """a processor with its own fresh build of the spec"""

    def __init__(self, spec, enc):
        from adsg_core.optimization.graph_processor import GraphProcessor
        from adsg_core.optimization.hierarchy.registry import SelChoiceEncoderType
        self.b = B.build(spec, catch=False)
        self.gp = GraphProcessor(self.b.dsg, encoder_type=getattr(SelChoiceEncoderType, enc))
        self.all_dvs = list(self.gp.all_des_vars)

    def fix(self, i, v):
        self.gp.fix_des_var(self.all_dvs[i], v)

    def free(self, i):
        self.gp.free_des_var(self.all_dvs[i])

    def decode(self, x, create, model):
        g, x1, a1 = self.gp.get_graph(list(x), create=create)
        out = {'x': [round(float(v), 9) for v in x1], 'a': [bool(v) for v in a1]}
        if g is not None:
            obs = O.instance(g, self.b)
            out['arch'] = S.digest([obs_key(obs, model), obs['dv'], obs['metric']])
        return out, g

    def enumerate(self):
        res = self.gp.get_all_discrete_x()
        if res is None:
            return None
        X, A = res
        return sorted((tuple(round(float(v), 9) for v in r), tuple(bool(v) for v in a)) for r, a in zip(X, A))

    def stats(self):
        return [int(self.gp.get_n_valid_designs()), int(self.gp.get_n_valid_designs(with_fixed=True)),
                int(self.gp.get_n_design_space()), int(self.gp.get_n_design_space(with_fixed=True)),
                [dv.name for dv in self.gp.des_vars]]


def _outcome(f):
    """value, or the exception type (an exception raised identically by the fresh twin is not history dependence)"""
    try:
        return f()
    except Exception as e:  # noqa
        return 'EXC:' + type(e).__name__


def fixable(proc):
    """indices (into all_des_vars) of variables that may be fixed: not connection-choice variables"""
    import adsg_core.graph.adsg_nodes as an
    return [i for i, dv in enumerate(proc.all_dvs) if not isinstance(dv.node, an.ConnectionChoiceNode)]


def rand_vec(proc, rnd):
    out = []
    for dv in proc.gp.des_vars:
        if dv.is_discrete:
            out.append(rnd.randrange(dv.n_opts))
        else:
            lo, hi = dv.bounds
            out.append(rnd.choice([lo, hi, lo + rnd.random() * (hi - lo)]))
    return out


def run_history(prop, sp, enc, col, emit, rnd, depth, model):
    """apply a random operation sequence to P; after each step issue the same query to a fresh twin"""
    try:
        P = Proc(sp, enc)
        _ = P.gp.des_vars
    except Exception:  # noqa  (construction problems are C01's business)
        col.count('skipped_construct_failed')
        return 0
    fixed = {}     # index -> value, in insertion order
    returned = []  # every instance handed out (kept alive)
    snaps = []     # what each of them stored when it was handed out (None once the harness itself mutated it)
    ops_log = []

    def snap(g_):
        ob = O.instance(g_, P.b)
        return [ob['nodes'], ob['dv'], ob['metric']]

    def recheck(reason):
        # returned instances are independent objects: nothing that happens afterwards may change what they hold
        for k_, (g_, s_) in enumerate(zip(returned, snaps)):
            if s_ is None:
                continue
            col.count('monitor_returned_instance_rechecks')
            now = snap(g_)
            if now != s_:
                emit('returned_instance_changed_later', {'ops': ops_log, 'instance_no': k_, 'held': s_[1:], 'holds_now': now[1:],
                                                         'after': reason, 'enc': enc}, where={'after': reason})
                snaps[k_] = None
    n_steps = 0
    fx = fixable(P)
    for step in range(depth):
        r = rnd.random()
        if r < .45:
            op = ('decode', rand_vec(P, rnd), rnd.random() < .75)
        elif r < .55:
            op = ('enumerate',)
        elif r < .62:
            op = ('stats',)
        elif r < .77 and fx:
            i = rnd.choice(fx)
            dv = P.all_dvs[i]
            v = rnd.randrange(dv.n_opts) if dv.is_discrete else dv.bounds[0] + rnd.random() * (dv.bounds[1] - dv.bounds[0])
            op = ('fix', i, v)
        elif r < .87 and fixed:
            op = ('free', rnd.choice(list(fixed)))
        elif r < .94 and returned:
            op = ('mutate', rnd.randrange(len(returned)))
        else:
            op = ('pickle',)
        ops_log.append(op)
        n_steps += 1
        col.count('monitor_history_steps')
        col.count('op_' + op[0])
        try:
            if op[0] == 'fix':
                P.fix(op[1], op[2])
                fixed.pop(op[1], None)
                fixed[op[1]] = op[2]
                continue
            if op[0] == 'free':
                P.free(op[1])
                fixed.pop(op[1], None)
                continue
            if op[0] == 'mutate':
                g = returned[op[1]]
                for n in list(g.des_var_nodes)[:2]:
                    g.set_des_var_value(n, 0 if n.is_discrete else n.bounds[1])
                for n in g.metric_nodes:
                    g.set_metric_value(n, 123.5)
                snaps[op[1]] = None
                recheck('mutate')
                continue
            if op[0] == 'pickle':
                gp2 = pickle.loads(pickle.dumps(P.gp))
                P.gp = gp2
                P.all_dvs = list(gp2.all_des_vars)
                continue
            # queries: same on a fresh twin with the same fixed values
            T = Proc(sp, enc)
            for i, v in fixed.items():
                T.fix(i, v)
            if op[0] == 'decode':
                try:
                    got, g = P.decode(op[1], op[2], model)
                    exc = None
                except Exception as e:  # noqa
                    got, g, exc = None, None, D.exc_info(e)
                try:
                    want, _ = T.decode(op[1], True, model)
                except Exception as e:  # noqa
                    want = {'exc': D.exc_info(e)['type']}
                if exc is not None:
                    got = {'exc': exc['type']}
                col.count('monitor_twin_comparisons')
                if g is not None:
                    for old in returned:
                        if old is g:
                            emit('same_instance_returned_twice', {'ops': ops_log, 'enc': enc})
                    recheck('decode')
                    returned.append(g)
                    snaps.append(snap(g))
                cmpkeys = ['x', 'a'] + (['arch'] if 'arch' in got else [])
                if 'exc' in got or 'exc' in want:
                    if got.get('exc') != want.get('exc'):
                        emit('history_dependent_decode', {'ops': ops_log, 'used': got, 'fresh': want, 'enc': enc},
                             where={'kind': 'exception'})
                elif any(got[k] != want[k] for k in cmpkeys):
                    sym = 'create_flag_dependent' if (not op[2] and len(ops_log) == 1) else 'history_dependent_decode'
                    had_mut = any(o[0] == 'mutate' for o in ops_log)
                    had_pickle = any(o[0] == 'pickle' for o in ops_log)
                    only_arch = got['x'] == want['x'] and got['a'] == want['a']
                    if had_mut and only_arch:
                        sym = 'instance_mutation_leaks'
                    emit(sym, {'ops': ops_log, 'used': got, 'fresh': want, 'enc': enc,
                               'after_fix_free': any(o[0] in ('fix', 'free') for o in ops_log)},
                         where={'after': 'fix' if any(o[0] in ('fix', 'free') for o in ops_log) else
                                ('pickle' if had_pickle else 'queries')})
                    # resynchronise: the used processor is now known to deviate; stop this history
                    return n_steps
                if not op[2]:
                    try:
                        got_t, _ = P.decode(op[1], True, model)
                        if got_t['x'] != got['x'] or got_t['a'] != got['a']:
                            emit('create_flag_dependent', {'ops': ops_log, 'create_false': got, 'create_true': got_t,
                                                           'enc': enc})
                    except Exception:  # noqa
                        pass
            elif op[0] == 'enumerate':
                a, b_ = _outcome(P.enumerate), _outcome(T.enumerate)
                col.count('monitor_twin_comparisons')
                if a != b_:
                    emit('history_dependent_enumeration', {'ops': ops_log, 'n_used': a if not isinstance(a, list) else len(a),
                                                           'n_fresh': b_ if not isinstance(b_, list) else len(b_), 'enc': enc})
                    return n_steps
            elif op[0] == 'stats':
                a, b_ = _outcome(P.stats), _outcome(T.stats)
                col.count('monitor_twin_comparisons')
                if a != b_:
                    emit('history_dependent_statistics', {'ops': ops_log, 'used': a, 'fresh': b_, 'enc': enc})
                    return n_steps
        except Exception as e:  # noqa
            info = D.exc_info(e)
            emit('history_exception', {'ops': ops_log, 'exc': info, 'enc': enc},
                 where={'exc': info['type'], 'site': info['site'], 'op': op[0]})
            return n_steps
    return n_steps


def both_views(P, E, stats0, dv, v, enc, emit, col, order):
    col.count('monitor_both_views_evaluations')
    try:
        if order == 'restricted_first':
            _ = P.gp.get_n_valid_designs(with_fixed=True)
            try:
                _ = P.gp.get_statistics()
            except Exception:  # noqa  (judged below)
                pass
        n_all = int(P.gp.get_n_valid_designs(with_fixed=False))
        n_decl = int(P.gp.get_n_design_space(with_fixed=False))
        res = P.gp.get_all_discrete_x(with_fixed=False)
        rows_all = None if res is None else sorted(
            (tuple(round(float(x), 9) for x in r), tuple(bool(x) for x in a)) for r, a in zip(*res))
        bad = {}
        # the un-fixed COUNT is compared with the count of the never-fixed state (count == number of rows is C04's law:
        # a pattern encoder that lists a vector it cannot decode, KF-PATTERN-ENC, breaks it without any fixing)
        if stats0 is not None and n_all != stats0[0]:
            bad['n_valid_without_fixed'] = [n_all, stats0[0]]
        elif stats0 is None and E is not None and n_all != len(E):
            bad['n_valid_without_fixed'] = [n_all, len(E)]
        if stats0 is not None and n_decl != stats0[2]:
            bad['n_declared_without_fixed'] = [n_decl, stats0[2]]
        if E is not None and rows_all is not None and rows_all != E:
            bad['enumeration_without_fixed'] = [len(rows_all), len(E)]
        if bad:
            emit('unfixed_view_changed_while_fixed', dict(bad, var=dv.name, value=v, enc=enc, order=order),
                 where={'order': order})
    except Exception as e:  # noqa
        emit('fix_exception', {'stage': 'both_views', 'exc': D.exc_info(e), 'enc': enc},
             where={'stage': 'both_views', 'exc': type(e).__name__})


def run_fix_laws(sp, enc, col, emit, rnd, model, max_vars=6):
    """C15: for every fixable variable x value: subset law, counts, decodes, free restores; rejections"""
    import adsg_core.graph.adsg_nodes as an
    try:
        F = Proc(sp, enc)   # fresh, never fixed: source of the un-fixed enumeration E
        E = F.enumerate()
        dvs = F.all_dvs
    except Exception:  # noqa
        col.count('skipped_construct_failed')
        return False
    if E is None:
        col.count('no_enumeration_' + enc)
    try:
        P = Proc(sp, enc)
    except Exception:  # noqa
        return False
    names0 = [dv.name for dv in P.gp.des_vars]
    stats0 = None
    try:
        stats0 = P.stats()
    except Exception:  # noqa
        pass
    fx = fixable(P)
    rnd.shuffle(fx)
    did = False
    for i in fx[:max_vars]:
        dv = P.all_dvs[i]
        values = list(range(dv.n_opts)) if dv.is_discrete else [dv.bounds[0], (dv.bounds[0] + dv.bounds[1]) / 2]
        for v in values[:4]:
            col.count('monitor_fix_evaluations')
            try:
                P.fix(i, v)
                listed = [d.name for d in P.gp.des_vars]
                if P.all_dvs[i].name in listed and len(listed) == len(names0):
                    emit('fixed_variable_still_listed', {'var': dv.name, 'value': v, 'enc': enc})
                # while a variable is fixed, the with_fixed=False views keep describing the ORIGINAL problem and the
                # with_fixed=True views the restricted one -- whichever of the two is asked first
                orig_first = (i + int(v if dv.is_discrete else 0) + len(names0)) % 2 == 0
                if orig_first:
                    both_views(P, E, stats0, dv, v, enc, emit, col, 'original_first')
                rows = P.enumerate()
                if not orig_first:
                    both_views(P, E, stats0, dv, v, enc, emit, col, 'restricted_first')
                if E is not None and rows is not None and dv.is_discrete:
                    did = True
                    def drop(r):
                        return tuple(x for j, x in enumerate(r) if j != i)
                    upper = {(drop(r), drop(a)) for r, a in E if (not a[i]) or r[i] == v}
                    lower = {(drop(r), drop(a)) for r, a in E if a[i] and r[i] == v}
                    got = set(rows)
                    if got - upper:
                        bad = sorted(got - upper)[0]
                        wrong_value = any(drop(r) == bad[0] for r, a in E if a[i] and r[i] != v)
                        emit('fixed_rows_wrong_value' if wrong_value else 'fixed_rows_not_subset',
                             {'var': dv.name, 'value': v, 'row': bad, 'n_rows': len(got), 'n_upper': len(upper),
                              'enc': enc})
                    if lower - got:
                        emit('fixed_rows_lost', {'var': dv.name, 'value': v, 'n_lost': len(lower - got),
                                                 'example': sorted(lower - got)[0], 'enc': enc})
                    n_fixed = P.gp.get_n_valid_designs(with_fixed=True)
                    if n_fixed != len(rows):
                        emit('fixed_count_mismatch', {'var': dv.name, 'value': v, 'n_valid_with_fixed': int(n_fixed),
                                                      'n_rows': len(rows), 'enc': enc})
                    try:
                        st = P.gp.get_statistics()
                        sv = int(st.loc['total-design-problem']['n_valid'])
                        if sv != len(rows):
                            emit('fixed_statistics_mismatch', {'var': dv.name, 'value': v, 'stats_n_valid': sv,
                                                               'n_rows': len(rows), 'enc': enc})
                    except Exception as e:  # noqa
                        emit('fix_exception', {'stage': 'statistics', 'exc': D.exc_info(e), 'enc': enc},
                             where={'stage': 'statistics', 'exc': type(e).__name__})
                # decodes of the restricted space describe the subset: if the un-fixed problem decodes the full
                # vector (fixed value inserted) to a design where the variable has that value or is inactive, the
                # restricted problem must decode to the same architecture
                vecs, _ = D.declared_space(P.gp, 40, rnd)
                free_idx = [j for j in range(len(P.all_dvs)) if j != i]
                for x in vecs:
                    col.count('monitor_fixed_decode_evaluations')
                    full = [None] * len(P.all_dvs)
                    for j, xv in zip(free_idx, x):
                        full[j] = xv
                    full[i] = v
                    try:
                        want, _g = F.decode(full, True, model)
                    except Exception:  # noqa
                        continue
                    if not (want['a'][i] and abs(want['x'][i] - float(v)) <= 1e-9 and
                            all(abs(float(p_) - float(q_)) <= 1e-9 for p_, q_ in zip(want['x'], full))):
                        continue  # only a vector that is valid as given, with the variable active at v, must survive
                    try:
                        if rnd.random() < .5:
                            P.decode(x, False, model)   # both decode modes are used while the variable is fixed
                        got, _g = P.decode(x, True, model)
                    except Exception as e:  # noqa
                        info = D.exc_info(e)
                        emit('fix_exception', {'var': dv.name, 'value': v, 'x': x, 'exc': info, 'enc': enc,
                                               'unfixed_decode': want},
                             where={'exc': info['type'], 'site': info['site'], 'stage': 'restricted_decode'})
                        break
                    if got['arch'] != want['arch'] or got['x'] != [xx for j, xx in enumerate(want['x']) if j != i]:
                        emit('fixed_decode_outside_subset', {'var': dv.name, 'value': v, 'x': x, 'restricted': got,
                                                             'unfixed': want, 'enc': enc})
                        break
                P.free(i)
            except Exception as e:  # noqa
                info = D.exc_info(e)
                emit('fix_exception', {'var': dv.name, 'value': v, 'exc': info, 'enc': enc},
                     where={'exc': info['type'], 'site': info['site']})
                try:
                    P.free(i)
                except Exception:  # noqa
                    pass
        # after free everything equals the never-fixed processor
        try:
            col.count('monitor_free_restores_evaluations')
            if [d.name for d in P.gp.des_vars] != names0:
                emit('free_does_not_restore', {'var': dv.name, 'what': 'des_vars', 'enc': enc})
            rows = P.enumerate()
            if rows != E:
                emit('free_does_not_restore', {'var': dv.name, 'what': 'enumeration',
                                               'n_now': None if rows is None else len(rows),
                                               'n_fresh': None if E is None else len(E), 'enc': enc})
            if stats0 is not None and P.stats() != stats0:
                emit('free_does_not_restore', {'var': dv.name, 'what': 'statistics', 'now': P.stats(),
                                               'fresh': stats0, 'enc': enc})
            vecs, _ = D.declared_space(P.gp, 25, rnd)
            for k, x in enumerate(vecs):
                a, _g = P.decode(x, k % 2 == 0, model)
                b_, _g2 = F.decode(x, k % 2 == 0, model)
                if a != b_:
                    emit('free_does_not_restore', {'var': dv.name, 'what': 'decode', 'x': x, 'now': a, 'fresh': b_,
                                                   'enc': enc})
                    break
        except Exception as e:  # noqa
            info = D.exc_info(e)
            emit('fix_exception', {'stage': 'after_free', 'exc': info, 'enc': enc},
                 where={'exc': info['type'], 'site': info['site'], 'stage': 'after_free'})
    # two variables fixed at the same time, in both orders of fixing: every design of the un-fixed enumeration in which
    # both are active at the fixed values is decoded by the restricted problem (reduced vector) to the same architecture
    disc = [i for i in fx if P.all_dvs[i].is_discrete]
    if E is not None and len(disc) >= 2:
        for rep in range(2):
            i, j = sorted(rnd.sample(disc, 2))
            both = [(r, a) for r, a in E if a[i] and a[j]]
            if not both:
                continue
            r0, _a0 = both[rnd.randrange(len(both))]
            vi, vj = int(r0[i]), int(r0[j])
            for order in ((j, vj, i, vi), (i, vi, j, vj)):
                col.count('monitor_two_fix_evaluations')
                try:
                    P.fix(order[0], order[1])
                    P.fix(order[2], order[3])
                    for r, a in [ra for ra in both if int(ra[0][i]) == vi and int(ra[0][j]) == vj][:12]:
                        red = [x_ for k_, x_ in enumerate(r) if k_ not in (i, j)]
                        want, _g = F.decode(list(r), True, model)
                        got, _g2 = P.decode(red, rnd.random() < .5, model)
                        if got['x'] != [x_ for k_, x_ in enumerate(want['x']) if k_ not in (i, j)] or \
                                ('arch' in got and got['arch'] != want['arch']):
                            emit('fixed_decode_outside_subset',
                                 {'vars': [P.all_dvs[i].name, P.all_dvs[j].name], 'values': [vi, vj],
                                  'fixed_in_order': [P.all_dvs[order[0]].name, P.all_dvs[order[2]].name],
                                  'x': red, 'restricted': got, 'unfixed': want, 'enc': enc},
                                 where={'two_fixed': True})
                            break
                except Exception as e:  # noqa
                    info = D.exc_info(e)
                    emit('fix_exception', {'stage': 'two_fixed', 'exc': info, 'enc': enc},
                         where={'exc': info['type'], 'site': info['site'], 'stage': 'two_fixed'})
                finally:
                    for k_ in (i, j):
                        try:
                            P.free(k_)
                        except Exception:  # noqa
                            pass
    # rejections
    for i, dv in enumerate(P.all_dvs):
        before = (dict(P.gp.fixed_values), [d.name for d in P.gp.des_vars])
        if isinstance(dv.node, an.ConnectionChoiceNode):
            col.count('monitor_rejection_evaluations')
            try:
                P.gp.fix_des_var(P.all_dvs[i], 0)
                emit('fix_connection_variable_accepted', {'var': dv.name, 'enc': enc})
                P.gp.free_des_var(P.all_dvs[i])
            except RuntimeError:
                pass
            except Exception as e:  # noqa
                emit('fix_exception', {'stage': 'reject_conn', 'exc': D.exc_info(e), 'enc': enc},
                     where={'exc': type(e).__name__, 'stage': 'reject_conn'})
        else:
            col.count('monitor_rejection_evaluations')
            for bad in ([-1, dv.n_opts, dv.n_opts + 5] if dv.is_discrete else [dv.bounds[0] - 1, dv.bounds[1] + .5]):
                try:
                    P.gp.fix_des_var(P.all_dvs[i], bad)
                    emit('fix_out_of_range_accepted', {'var': dv.name, 'value': bad, 'enc': enc})
                    P.gp.free_des_var(P.all_dvs[i])
                except ValueError:
                    pass
                except Exception as e:  # noqa
                    emit('fix_exception', {'stage': 'reject_range', 'exc': D.exc_info(e), 'enc': enc},
                         where={'exc': type(e).__name__, 'stage': 'reject_range'})
        after = (dict(P.gp.fixed_values), [d.name for d in P.gp.des_vars])
        if before != after:
            emit('rejected_fix_changed_state', {'var': dv.name, 'before': before, 'after': after, 'enc': enc})
        # the same rejections for a variable that is already fixed: the earlier fix must survive them
        if not isinstance(dv.node, an.ConnectionChoiceNode):
            good = rnd.randrange(dv.n_opts) if dv.is_discrete else dv.bounds[0]
            try:
                P.gp.fix_des_var(P.all_dvs[i], good)
            except Exception:  # noqa  (valid fixes are judged by the laws above)
                continue
            col.count('monitor_rejection_evaluations')
            before = (dict(P.gp.fixed_values), [d.name for d in P.gp.des_vars])
            for bad in ([-1, dv.n_opts] if dv.is_discrete else [dv.bounds[1] + .5]):
                try:
                    P.gp.fix_des_var(P.all_dvs[i], bad)
                    emit('fix_out_of_range_accepted', {'var': dv.name, 'value': bad, 'enc': enc, 'already_fixed': good})
                except ValueError:
                    pass
                except Exception as e:  # noqa
                    emit('fix_exception', {'stage': 'reject_range_fixed', 'exc': D.exc_info(e), 'enc': enc},
                         where={'exc': type(e).__name__, 'stage': 'reject_range'})
            after = (dict(P.gp.fixed_values), [d.name for d in P.gp.des_vars])
            if before != after:
                emit('rejected_fix_changed_state', {'var': dv.name, 'before': before, 'after': after, 'enc': enc,
                                                    'already_fixed': good})
            try:
                P.gp.free_des_var(P.all_dvs[i])
            except Exception:  # noqa
                pass
    return did


class Emit:
    def __init__(self, prop, col, sp, flags):
        self.prop, self.col, self.sp, self.flags = prop, col, sp, flags
        self.seen = set()
        self.ctx = {}

    def __call__(self, symptom, detail, where=None):
        if symptom not in OWN[self.prop]:
            return
        k = (symptom, S.canon(where or {}), detail.get('enc'))
        if k in self.seen:
            return
        self.seen.add(k)
        w = {'enc': detail.get('enc')}
        w.update(self.ctx)
        w.update(where or {})
        self.col.violation(symptom, self.sp, detail, self.flags, where=w)


def check_case(prop, sp, col, shard, n_hist, depth, seed_parts):
    col.evaluations += 1
    col.count('cases_' + shard)
    sp = S.normalize(sp)
    flags = S.classify(sp)
    model = R.Model(sp)
    try:
        if not model.architectures(limit=5000):
            col.count('skipped_no_architecture')
            return
    except OverflowError:
        col.count('skipped_ref_too_large')
        return
    emit = Emit(prop, col, sp, flags)
    if sp['conn']:
        try:
            p0 = Proc(sp, 'COMPLETE')
            emit.ctx = {'conn_enc': ','.join(sorted({type(d[0].encoder).__name__
                                                     for d in p0.gp._conn_choice_data_map.values()}))}
        except Exception:  # noqa
            pass
    if 'con_unordered_norepl' in flags:
        try:
            emit.ctx['norepl_unreduced_all_permanent'] = common.norepl_unreduced_all_permanent(B.build(sp).dsg)
        except Exception:  # noqa
            pass
    rnd = gen.rng_for('histops', *seed_parts)
    total = 0
    did = False
    for enc in ('COMPLETE', 'FAST'):
        if prop == 'C05':
            for h in range(n_hist):
                total += run_history(prop, sp, enc, col, emit, rnd, depth, model)
        else:
            did = run_fix_laws(sp, enc, col, emit, rnd, model) or did
            # fix/free sequences up to length 4 followed by "all free": must equal fresh (reuses the twin check)
            for h in range(max(1, n_hist // 2)):
                total += fix_free_sequence(sp, enc, col, emit, rnd, model)
    if (prop == 'C05' and total >= 4) or (prop == 'C15' and (did or total > 0)):
        col.nontrivial.add(S.digest(sp))
        if len(col.samples) < 2:
            col.sample({'spec': common.short(sp), 'history_steps': total, 'flags': flags})


def fix_free_sequence(sp, enc, col, emit, rnd, model):
    try:
        P, F = Proc(sp, enc), Proc(sp, enc)
        _ = P.gp.des_vars
    except Exception:  # noqa
        return 0
    fx = fixable(P)
    if not fx:
        return 0
    fixed = {}
    n = 0
    try:
        if rnd.random() < .6:
            P.gp.get_graph(rand_vec(P, rnd))
        for _ in range(rnd.randint(1, 4)):
            if fixed and rnd.random() < .4:
                i = rnd.choice(list(fixed))
                P.free(i)
                fixed.pop(i)
            else:
                i = rnd.choice(fx)
                dv = P.all_dvs[i]
                v = rnd.randrange(dv.n_opts) if dv.is_discrete else dv.bounds[0]
                P.fix(i, v)
                fixed[i] = v
            n += 1
            col.count('monitor_fix_free_steps')
            if rnd.random() < .7:
                try:
                    P.gp.get_graph(rand_vec(P, rnd), create=rnd.random() < .5)
                except RuntimeError:
                    pass  # the combination of fixed values may leave no design at all: an explicit error is fine
        for i in list(fixed):
            P.free(i)
        rows, rows_f = P.enumerate(), F.enumerate()
        if rows != rows_f:
            emit('free_does_not_restore', {'what': 'enumeration after fix/free sequence', 'enc': enc})
        for k in range(12):
            x = rand_vec(P, rnd)
            a, _g = P.decode(x, k % 2 == 0, model)
            b_, _g2 = F.decode(x, k % 2 == 0, model)
            if a != b_:
                emit('free_does_not_restore', {'what': 'decode after fix/free sequence', 'x': x, 'now': a,
                                               'fresh': b_, 'enc': enc})
                break
    except Exception as e:  # noqa
        info = D.exc_info(e)
        emit('fix_exception', {'stage': 'sequence', 'exc': info, 'enc': enc},
             where={'exc': info['type'], 'site': info['site'], 'stage': 'sequence'})
    return n


def table_task(task, col):
    """decode table x -> (x', active, arch) of a list of specs in this process (hash seed set by the parent)"""
    out = {}
    for i in range(task['lo'], task['hi']):
        name, sp = case_spec('C05', task['seed'], i)
        sp = S.normalize(sp)
        model = R.Model(sp)
        col.evaluations += 1
        for enc in ('COMPLETE', 'FAST'):
            try:
                P = Proc(sp, enc)
                rnd = gen.rng_for('table', S.digest(sp), enc)
                vecs, _ = D.declared_space(P.gp, 60, rnd)
                tbl = [[dv.name for dv in P.gp.des_vars]]
                for x in vecs:
                    r, _g = P.decode(x, True, model)
                    tbl.append([x, r['x'], r['a'], r['arch']])
                out['%s|%s' % (S.digest(sp), enc)] = S.digest(tbl)
                col.count('monitor_table_rows', len(vecs))
            except Exception as e:  # noqa
                out['%s|%s' % (S.digest(sp), enc)] = 'EXC:' + type(e).__name__
    col.counters['__tables__'] = 0
    col.samples.append({'__tables__': out, 'hashseed': task.get('hs')})


def worker(task, col):
    prop = task['prop']
    from adsg_core.optimization.graph_processor import GraphProcessor
    M.Tap(GraphProcessor, 'get_graph', counter=col.count)
    M.Tap(GraphProcessor, 'fix_des_var', counter=col.count)
    if task.get('kind') == 'table':
        table_task(task, col)
        return
    if task.get('replay'):
        v = task['replay']['violation']
        common.guard(col, check_case, prop, v['spec'], col, 'replay', 6, 14, ['replay', S.digest(v['spec'])])
        return
    if task['shard'] == 0:
        for c in common.corpus(prop):
            common.guard(col, check_case, prop, c['spec'], col, 'corpus', task['n_hist'], task['depth'], ['corpus', c['file']])
    for i in range(task['lo'], task['hi']):
        name, sp = case_spec(prop, task['seed'], i)
        n0 = len(col.violations)
        common.guard(col, check_case, prop, sp, col, name, task['n_hist'], task['depth'], [prop, task['seed'], i])
        if sp.get('conn') and len(col.violations) > n0:
            common.attribute_to_pattern_encoders(
                col, n0, lambda c, sp=sp, i=i: check_case(prop, sp, c, 'rerun', task['n_hist'], task['depth'],
                                                          [prop, task['seed'], i]))


def main(run):
    prop = run.prop
    extra = {}
    if run.replay:
        run.map([{'replay': common.load_replay(run.replay), 'shard': 0}])
    else:
        quick = run.tier == 'quick'
        n = {'C05': 200, 'C15': 160}[prop] if quick else {'C05': 4000, 'C15': 3000}[prop]
        tasks = common.shard_tasks(n, run.jobs, n_hist=2 if quick else 4, depth=10 if quick else 14)
        if prop == 'C05':
            # the same decode tables in processes with different hash seeds
            n_tab = 48 if quick else 600
            for hs in ('0', '1', '2', 'random'):
                for t in common.shard_tasks(n_tab, 4, kind='table'):
                    t['_hashseed'] = hs
                    t['hs'] = hs
                    tasks.append(t)
        res = run.map(tasks, timeout=3400)
        if prop == 'C05':
            tables = {}
            for r in run.results:
                keep = []
                for s in r.get('samples', []):
                    if isinstance(s, dict) and '__tables__' in s:
                        for k, d in s['__tables__'].items():
                            tables.setdefault(k, {})[s['hashseed']] = d
                    else:
                        keep.append(s)
                r['samples'] = keep
            n_cmp, bad = 0, []
            for k, per in tables.items():
                if len(per) >= 2:
                    n_cmp += 1
                    if len(set(per.values())) > 1:
                        bad.append((k, per))
            extra = {'cross_process_tables_compared': n_cmp, 'hash_seeds': ['0', '1', '2', 'random']}
            if bad:
                # regenerate the spec of the first few disagreeing tables for the witness
                viols = []
                idx = {}
                for i in range(48 if quick else 600):
                    name, sp = case_spec('C05', run.seed, i)
                    idx[S.digest(S.normalize(sp))] = sp
                for k, per in bad[:20]:
                    sp = idx.get(k.split('|')[0])
                    flags = S.classify(S.normalize(sp)) if sp else []
                    viols.append({'symptom': 'process_dependent_decode', 'spec': sp, 'flags': flags,
                                  'detail': {'table_digest_per_hash_seed': per, 'enc': k.split('|')[1]},
                                  'where': {'enc': k.split('|')[1]}})
                run.results.append({'evaluations': 0, 'violations': viols, 'counters': {}, 'nontrivial': []})
    rule = {
        'C05': 'random operation sequences over {decode(x, create), enumerate, statistics, fix, free, mutate a returned '
               'instance, pickle round trip} on one long-lived processor (both encoders); after every query the same '
               'query is issued to a freshly built processor with the same fixed values; plus decode tables computed '
               'in processes with PYTHONHASHSEED 0/1/2/random; non-trivial = >=4 history steps executed',
        'C15': 'every fixable variable x value: restricted enumeration between lower and upper filter of the un-fixed '
               'enumeration, counts, statistics, decodes of the restricted space, free restores (des_vars, enumeration, '
               'statistics, decodes); random fix/free sequences up to length 4 ending all-free; rejected fixes; '
               'non-trivial = subset law evaluated or a fix/free sequence executed',
    }[prop]
    deciding = {'C05': ['monitor_history_steps', 'monitor_twin_comparisons'],
                'C15': ['monitor_fix_evaluations', 'monitor_free_restores_evaluations']}[prop]
    run.finish(rule, min_nontrivial=20, deciding=deciding, extra_cov=extra,
               assumptions=['a freshly built processor of a fresh build of the same spec is the reference'])
