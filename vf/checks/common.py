"""helpers shared by the check drivers"""
import os
import json
import glob
from .. import core, spec as S


def shard_tasks(n_cases, n_shards, **extra):
    n_shards = max(1, min(n_shards, n_cases))
    per = (n_cases + n_shards - 1) // n_shards
    tasks = []
    for s in range(n_shards):
        lo, hi = s * per, min(n_cases, (s + 1) * per)
        if lo >= hi:
            break
        t = {'shard': s, 'lo': lo, 'hi': hi}
        t.update(extra)
        tasks.append(t)
    return tasks


def corpus(tag):
    """fixed specs tagged for a property: corpus/*.json with {"tags": [...], "spec": {...}}"""
    out = []
    for path in sorted(glob.glob(os.path.join(core.ROOT, 'corpus', '*.json'))):
        with open(path) as fp:
            d = json.load(fp)
        if tag in d.get('tags', []) or 'all' in d.get('tags', []):
            d['file'] = os.path.basename(path)
            out.append(d)
    return out


def load_replay(path):
    with open(path) as fp:
        return json.load(fp)


def short(spec):
    """compact sample representation of a spec"""
    s = S.normalize(spec)
    return {'nodes': [n['id'] if n['kind'] == 'named' else n for n in s['nodes']], 'edges': s['edges'],
            'sel': [[c['key'], c['origin'], c['options']] for c in s['sel']], 'incompat': s['incompat'],
            'constraints': s['constraints'], 'conn': s['conn'], 'start': s['start']}


def guard(col, fn, *args, **kw):
    """run one case; a crash of the harness itself makes that case inconclusive, never a verdict"""
    import traceback
    try:
        return fn(*args, **kw)
    except Exception:  # noqa
        col.inconclusive.append('case crashed in harness: ' + traceback.format_exc()[-1200:])
        col.count('harness_case_crashes')


class HarnessTimeout(BaseException):
    """raised by time_limit in the worker's main thread (BaseException: library code catching Exception cannot eat it)"""


class time_limit:
    """wall-clock budget for one block of harness work (SIGALRM; main thread only).  Its firing is never a verdict."""

    def __init__(self, seconds):
        self.seconds = seconds

    def __enter__(self):
        import signal

        def handler(signum, frame):
            raise HarnessTimeout()
        self._old = signal.signal(signal.SIGALRM, handler)
        signal.setitimer(signal.ITIMER_REAL, self.seconds)
        return self

    def __exit__(self, *exc):
        import signal
        signal.setitimer(signal.ITIMER_REAL, 0)
        signal.signal(signal.SIGALRM, self._old)
        return False


class no_pattern_encoders:
    """context: encoder selection without the pattern encoders (used to attribute a violation to them or not)"""

    def __enter__(self):
        import os
        import adsg_core.optimization.assign_enc.selector as sm
        self.sm = sm
        self.saved = list(sm.PATTERN_ENCODERS)
        sm.PATTERN_ENCODERS[:] = []
        # (own cache directory: the selection cache would otherwise hand back the cached pattern-encoder selection)
        self.xdg = os.environ.get('XDG_CACHE_HOME')
        if self.xdg:
            os.environ['XDG_CACHE_HOME'] = os.path.join(self.xdg, 'no_pattern')
        return self

    def __exit__(self, *exc):
        import os
        self.sm.PATTERN_ENCODERS[:] = self.saved
        if self.xdg:
            os.environ['XDG_CACHE_HOME'] = self.xdg
        return False


def attribute_to_pattern_encoders(col, n0, rerun):
    """Violations col.violations[n0:] of one case that carry a pattern encoder in where['conn_enc'] are re-examined:
    the case is re-run with pattern encoders excluded from selection.  Violations that persist are reported from the
    re-run (with the non-pattern encoder in their context, so the pattern-encoder known finding cannot swallow them);
    those that vanish stay attributed to the pattern encoders."""
    from ..core import Collector
    new = col.violations[n0:]
    tagged = [v for v in new if 'PatternEncoder' in str(v.get('where', {}).get('conn_enc', ''))]
    if not tagged:
        return
    tmp = Collector()
    try:
        with no_pattern_encoders():
            rerun(tmp)
    except Exception:  # noqa
        return
    col.count('pattern_attribution_reruns')
    persist = {(v['symptom']) for v in tmp.violations}
    keep = [v for v in new if v not in tagged or v['symptom'] not in persist]
    for v in tmp.violations:
        v.setdefault('where', {})['after_excluding_pattern_encoders'] = True
    col.violations[n0:] = keep + tmp.violations


def linked_partial_only(spec, assigns) -> bool:
    """True iff every given architecture (option assignment: active choices are its keys) has some LINKED
    selection-choice constraint of which at least one member is active and at least one is not.  Discriminates the
    known fast-encoder LINKED merging (KF-CON-LINKED-FAST: only architectures with partially active link groups are
    lost) from any other loss of architectures under a LINKED constraint."""
    sel_keys = {c['key'] for c in spec['sel']}
    linked = [c['choices'] for c in spec['constraints'] if c['type'] == 'LINKED' and all(x in sel_keys
                                                                                          for x in c['choices'])]
    if not linked or not assigns:
        return False
    for a in assigns:
        if not any(0 < sum(1 for x in ch if x in a) < len(ch) for ch in linked):
            return False
    return True


class only_encoder:
    """context: the selector's candidate lists reduced to ONE registered non-pattern encoder factory (index k over
    EAGER_ENCODERS + LAZY_ENCODERS + EAGER_ENUM_ENCODERS), on a scratch cache directory so that the forced selection
    does not leak into later cases through the selection cache.  The real selection code still runs; if the single
    candidate cannot encode the settings, selection fails and the caller falls back to the normal run."""

    def __init__(self, k):
        self.k = k

    def __enter__(self):
        import os
        import adsg_core.optimization.assign_enc.selector as sm
        self.sm = sm
        self.saved = {n: list(getattr(sm, n)) for n in ('PATTERN_ENCODERS', 'EAGER_ENCODERS', 'LAZY_ENCODERS',
                                                        'EAGER_ENUM_ENCODERS')}
        flat = [(n, f) for n in ('EAGER_ENCODERS', 'LAZY_ENCODERS', 'EAGER_ENUM_ENCODERS') for f in self.saved[n]]
        if self.k % 3 == 2:
            # the enumerating encoders are otherwise only reached in the selector's last stage: a third of the cases
            flat = [(n, f) for n, f in flat if n == 'EAGER_ENUM_ENCODERS'] or flat
        name, fac = flat[(self.k // 3) % len(flat)]
        for n in self.saved:
            getattr(sm, n)[:] = [fac] if n == name else []
        self.family = name
        # ... and, for half of the forced cases, with another registered imputer than the default one (the selector
        # reads the module-level defaults when it is constructed).  Constraint-violation imputers are documented not
        # to impute (they hand out a -1 matrix) and are left out.
        self.saved_imp = (sm.DEFAULT_LAZY_IMPUTER, sm.DEFAULT_EAGER_IMPUTER)
        self.imputer = 'default'
        if (self.k // 2) % 2 == 1:
            import adsg_core.optimization.assign_enc.encoder_registry as reg
            lazy = [f for f in reg.LAZY_IMPUTERS if 'ConstraintViolation' not in type(f()).__name__]
            eager = [f for f in reg.EAGER_IMPUTERS if 'ConstraintViolation' not in type(f()).__name__]
            sm.DEFAULT_LAZY_IMPUTER = lazy[(self.k // 4) % len(lazy)]
            sm.DEFAULT_EAGER_IMPUTER = eager[(self.k // 4) % len(eager)]
            self.imputer = '%s/%s' % (type(sm.DEFAULT_LAZY_IMPUTER()).__name__, type(sm.DEFAULT_EAGER_IMPUTER()).__name__)
        self.xdg = os.environ.get('XDG_CACHE_HOME')
        if self.xdg:
            os.environ['XDG_CACHE_HOME'] = os.path.join(self.xdg, 'forced_%d' % (self.k % 97))
        return self

    def __exit__(self, *exc):
        import os
        for n, lst in self.saved.items():
            getattr(self.sm, n)[:] = lst
        self.sm.DEFAULT_LAZY_IMPUTER, self.sm.DEFAULT_EAGER_IMPUTER = self.saved_imp
        if self.xdg:
            os.environ['XDG_CACHE_HOME'] = self.xdg
        return False


def linked_full_nonzero_only(spec, assigns) -> bool:
    """True iff every given architecture has some LINKED selection-choice constraint ALL of whose members are active
    with an option index other than 0.  The second known shape of the fast encoder's LINKED merging: a forced follower
    that becomes active before the variable-carrying choice is taken is applied at option index 0 first."""
    by_key = {c['key']: c for c in spec['sel']}
    linked = [c['choices'] for c in spec['constraints'] if c['type'] == 'LINKED' and all(x in by_key
                                                                                          for x in c['choices'])]
    if not linked or not assigns:
        return False
    for a in assigns:
        ok = False
        for ch in linked:
            if all(x in a for x in ch) and any(by_key[x]['options'].index(a[x]) != 0 for x in ch
                                               if a[x] in by_key[x]['options']):
                ok = True
        if not ok:
            return False
    return True


def linked_mixed_only(spec, assigns) -> bool:
    """True iff every given architecture individually has one of the two known shapes (a partially active link group, or
    a fully active one at a non-zero index): one graph can lose architectures of both shapes at once."""
    return bool(assigns) and all(linked_partial_only(spec, [a]) or linked_full_nonzero_only(spec, [a]) for a in assigns)


def norepl_unreduced_all_permanent(dsg):
    """State probe on an initialised design space graph: is there an UNORDERED_NOREPL constraint all of whose choices
    are permanent NOW (active from the start nodes) while its option lists were NOT pre-reduced (the first choice
    still offers its last option)?  The library pre-reduces the option lists only if all choices are permanent when
    the constraint is declared; the complete encoder decides "all permanent" again when it analyses the graph and then
    applies the index rule for pre-reduced lists.  The two disagree when a later constraint (or anything else resolved
    at initialisation) makes a member permanent afterwards."""
    try:
        from adsg_core.graph.choice_constraints import ChoiceConstraintType
        from adsg_core.graph.traversal import traverse_until_choice_nodes
        _, init_choices = traverse_until_choice_nodes(dsg.graph, dsg.derivation_start_permanent_nodes)
        init_choices = set(init_choices)
        for con in dsg.get_choice_constraints():
            if con.type != ChoiceConstraintType.UNORDERED_NOREPL or con.options is None or len(con.nodes) < 2:
                continue
            if not all(n in dsg.graph.nodes and n in init_choices for n in con.nodes):
                continue
            if con.options[0] and con.options[0][-1] in dsg.get_option_nodes(con.nodes[0]):
                return True
    except Exception:  # noqa
        return None
    return False


def linked_forced_is_first(gp) -> bool:
    """State probe: is the FIRST choice (in the processor's own choice order) of some LINKED constraint marked forced,
    i.e. left without a design variable?  The library keeps the variable on the first one; the known fast-encoder
    LINKED findings concern forced LATER members only."""
    try:
        from adsg_core.graph.choice_constraints import ChoiceConstraintType
        nodes = list(gp.selection_choice_nodes)
        forced = list(gp._sel_choice_is_forced)
        idx = {n: i for i, n in enumerate(nodes)}
        for con in gp.graph.get_choice_constraints():
            if con.type != ChoiceConstraintType.LINKED:
                continue
            ii = sorted(idx[n] for n in con.nodes if n in idx)
            if len(ii) > 1 and forced[ii[0]]:
                return True
    except Exception:  # noqa
        return False
    return False
