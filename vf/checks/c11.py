"""C11: connection choices respect connectors in every existence scenario (graph level and through the processor)."""
import itertools
from .. import gen, spec as S, build as B, observe as O, refmodel as R, drive as D, monitor as M
from . import common

PROFILES = [
    ('perm', .15, dict(p_incompat=.1, n_conn=(1, 1), p_conn_cond=0., p_grp=.3, n_steps=(1, 4), max_sel=2)),
    ('cond', .35, dict(p_incompat=.15, n_conn=(1, 1), p_conn_cond=.7, p_grp=.0, n_steps=(2, 6), max_sel=3, max_opts=3)),
    ('cond_grp', .3, dict(p_incompat=.15, n_conn=(1, 1), p_conn_cond=.7, p_grp=.6, p_side_cond=.3, p_grp_open=.5, n_steps=(2, 6),
                          max_sel=3, max_opts=3)),
    ('excl', .12, dict(p_incompat=.1, n_conn=(1, 1), p_conn_cond=.6, p_grp=.3, p_excl=1., n_steps=(2, 6), max_sel=3,
                       max_opts=3)),
    ('two', .08, dict(p_incompat=.1, n_conn=(2, 2), p_conn_cond=.5, p_grp=.2, n_steps=(2, 5), max_sel=2, max_opts=3)),
]


def case_spec(seed, i):
    rnd = gen.rng_for('C11', seed, i)
    r = rnd.random()
    acc = 0
    for name, w, kw in PROFILES:
        acc += w
        if r < acc:
            break
    return name, gen.gen_spec(rnd, **kw)


def mat_to_edges(k, m):
    src, tgt = S.conn_endpoints(k, 'src'), S.conn_endpoints(k, 'tgt')
    out = []
    for i, row in enumerate(m):
        for j, c in enumerate(row):
            out += [(src[i], tgt[j])] * c
    return tuple(sorted(out))


def check_case(sp, col, shard):
    import adsg_core.graph.adsg_nodes as an
    col.evaluations += 1
    col.count('cases_' + shard)
    sp = S.normalize(sp)
    flags = S.classify(sp)
    case = D.Case(sp)
    model, b = case.model, case.b
    if b.dsg is None:
        col.violation('build_error', sp, D.exc_info(b.error), flags, where={'exc': type(b.error).__name__})
        return
    kmap = {k['id']: k for k in sp['conn']}
    n_scen, n_nontrivial_scen = 0, 0
    scen_ref = {}   # node-set key -> {kid: set(edge multisets)}  (selection-admissible scenarios only)
    try:
        for assign, clos in model.enumerate():
            if model.selection_admissible(assign, clos):
                per = {}
                for k in sp['conn']:
                    if model.conn_active(k, clos):
                        per[k['id']] = {mat_to_edges(k, m) for m in model.conn_sets(k, clos)}
                scen_ref[S.canon(sorted(clos))] = (assign, clos, per)
    except OverflowError:
        col.count('skipped_ref_too_large')
        return
    # ---------------- graph level ----------------
    seen_scen = set()
    kept = []
    for path, g, e in D.walk(b, orders='first', max_paths=300):
        if e is not None:
            continue
        obs = O.instance(g, b)
        if [c for c in obs['choices'] if c.startswith('S:')]:
            continue
        key = S.canon(obs['nodes'])
        if key not in scen_ref:
            continue   # not a reference scenario (selection-level deviations are C02/C06's business)
        if key in seen_scen:
            continue
        seen_scen.add(key)
        assign, clos, per = scen_ref[key]
        kept.append((key, g, path))
        n_scen += 1
        col.count('monitor_scenario_evaluations')
        all_have = all(len(v) > 0 for v in per.values())
        tgt_ok = True
        for k in sp['conn']:
            if k['id'] not in per:
                for nme in S.conn_endpoints(k, 'tgt'):
                    es = model.endpoint_spec(nme, clos)
                    if es is not None and not R.deg_ok(es, 0):
                        tgt_ok = False
        ref_feasible = all_have and tgt_ok
        present_k = {c[2:] for c in obs['choices'] if c.startswith('K:')}
        if present_k != set(per):
            col.violation('connection_choice_presence_differs', sp, {'path': path, 'present': sorted(present_k),
                                                                     'reference_active': sorted(per)}, flags)
            continue
        try:
            offered = O.conn_sets(g, b)
        except Exception as ex:  # noqa
            info = D.exc_info(ex)
            col.violation('iter_conn_edges_exception', sp, {'path': path, 'exc': info}, flags,
                          where={'exc': info['type'], 'site': info['site']})
            continue
        for kid, want in per.items():
            got = {tuple(map(tuple, s_)) for s_ in offered.get('K:' + kid, [])}
            got_l = offered.get('K:' + kid, [])
            if len(got) != len(got_l):
                col.violation('duplicate_connection_sets_offered', sp, {'path': path, 'choice': kid}, flags)
            if len(want) >= 2:
                n_nontrivial_scen += 1
            if got != want:
                col.violation('offered_sets_differ', sp,
                              {'path': path, 'choice': kid, 'present': sorted(set(obs['nodes']) & set(
                                  S.conn_endpoints(kmap[kid], 'src') + S.conn_endpoints(kmap[kid], 'tgt'))),
                               'missing': sorted(want - got)[:3], 'extra': sorted(got - want)[:3],
                               'n_ref': len(want), 'n_offered': len(got)}, flags,
                              where={'dir': 'missing' if want - got else 'extra', 'level': 'graph'})
                continue
            # validation agrees with membership (valid sets and perturbed ones)
            cn = b.conn[kid]
            srcs = [b.node[n] for n in S.conn_endpoints(kmap[kid], 'src')]
            tgts = [b.node[n] for n in S.conn_endpoints(kmap[kid], 'tgt')]
            rnd = gen.rng_for('c11val', S.digest(sp), key, kid)
            cands = [list(s_) for s_ in sorted(want)[:8]]
            for s_ in list(cands):
                if s_:
                    cands.append(s_[1:])
                pres_s = [n for n in S.conn_endpoints(kmap[kid], 'src') if n in clos]
                pres_t = [n for n in S.conn_endpoints(kmap[kid], 'tgt') if n in clos]
                if pres_s and pres_t:
                    cands.append(sorted(s_ + [(rnd.choice(pres_s), rnd.choice(pres_t))]))
            for s_ in cands:
                if not s_:
                    continue   # validate=True skips validation of the empty set (documented in the signature)
                edges = [(b.node[u], b.node[v]) for u, v in s_]
                col.count('monitor_validate_evaluations')
                try:
                    ok = bool(cn.validate_conn_edges(g, edges))
                except Exception as ex:  # noqa
                    col.violation('validate_conn_edges_exception', sp, {'path': path, 'edges': s_,
                                                                        'exc': D.exc_info(ex)}, flags)
                    break
                if ok != (tuple(sorted(s_)) in want):
                    col.violation('validate_conn_edges_wrong', sp, {'path': path, 'choice': kid, 'edges': s_,
                                                                    'validate': ok, 'in_reference': not ok}, flags,
                                  where={'dir': 'accepts_invalid' if ok else 'rejects_valid'})
                    break
            # applying a set yields exactly those connection edges, no choice node, no exclusion edge left
            for s_ in sorted(want)[:6]:
                edges = [(b.node[u], b.node[v]) for u, v in s_]
                col.count('monitor_apply_evaluations')
                try:
                    inst = g.get_for_apply_connection_choice(cn, edges)
                except Exception as ex:  # noqa
                    info = D.exc_info(ex)
                    col.violation('apply_connection_exception', sp, {'path': path, 'edges': s_, 'exc': info}, flags,
                                  where={'exc': info['type'], 'site': info['site']})
                    break
                io = O.instance(inst, b)
                sn = set(S.conn_endpoints(kmap[kid], 'src'))
                tn = set(S.conn_endpoints(kmap[kid], 'tgt'))
                have = []
                for u, v, t, c in io['edges']:
                    if t == 'C' and u in sn and v in tn:
                        have += [(u, v)] * c
                left_x = [(u, v) for u, v, t, c in io['edges'] if t == 'X' and u in sn and v in tn]
                if tuple(sorted(have)) != tuple(s_) or ('K:' + kid) in io['choices'] or left_x or \
                        set(io['nodes']) != set(obs['nodes']):
                    col.violation('applied_instance_wrong', sp, {'path': path, 'requested': s_, 'instance_edges': have,
                                                                 'choice_left': ('K:' + kid) in io['choices'],
                                                                 'exclusion_edges_left': left_x}, flags)
                    break
                if len(per) == 1 and ref_feasible and (not io['feasible'] or not io['final']):
                    col.violation('applied_instance_not_feasible_final', sp, {'path': path, 'requested': s_,
                                                                              'feasible': io['feasible'],
                                                                              'final': io['final']}, flags)
                    break
    # ---------------- interleaved use: query every kept scenario again after all of them have been created ---------
    # (no other call on the graph in between: what an old instance offers must not depend on which instance was
    # constructed or checked last)
    for key, g, path in list(reversed(kept)) + kept[:3]:
        assign, clos, per = scen_ref[key]
        col.count('monitor_interleaved_evaluations')
        try:
            offered = O.conn_sets(g, b)
        except Exception as ex:  # noqa
            info = D.exc_info(ex)
            col.violation('iter_conn_edges_exception', sp, {'path': path, 'exc': info, 'interleaved': True}, flags,
                          where={'exc': info['type'], 'site': info['site']})
            continue
        for kid, want in per.items():
            got = {tuple(map(tuple, s_)) for s_ in offered.get('K:' + kid, [])}
            if got != want:
                col.violation('offered_sets_differ', sp,
                              {'path': path, 'choice': kid, 'missing': sorted(want - got)[:3],
                               'extra': sorted(got - want)[:3], 'n_ref': len(want), 'n_offered': len(got),
                               'interleaved': True}, flags,
                              where={'dir': 'missing' if want - got else 'extra', 'level': 'graph_interleaved'})
                break
            for s_ in sorted(want)[:3]:
                if s_ and not b.conn[kid].validate_conn_edges(g, [(b.node[u], b.node[v]) for u, v in s_]):
                    col.violation('validate_conn_edges_wrong', sp, {'path': path, 'choice': kid, 'edges': s_,
                                                                    'validate': False, 'interleaved': True}, flags,
                                  where={'dir': 'rejects_valid', 'level': 'graph_interleaved'})
                    break
    # ---------------- through the processor (complete encoder) ----------------
    processor_level(sp, case, scen_ref, col, flags)
    if n_nontrivial_scen >= 1:
        col.nontrivial.add(S.digest(sp))
        if len(col.samples) < 2:
            col.sample({'spec': common.short(sp), 'scenarios': n_scen,
                        'reference_sets_per_scenario': [{k: len(v) for k, v in per.items()}
                                                        for _, _, per in list(scen_ref.values())[:6]]})


def processor_level(sp, case, scen_ref, col, flags):
    from adsg_core.optimization.graph_processor import GraphProcessor
    from adsg_core.optimization.hierarchy.registry import SelChoiceEncoderType
    model = case.model
    b = case.rebuild()
    if b.dsg is None:
        return
    # (a scenario without any connection choice is not automatically feasible: connectors left without a choice must
    # accept zero connections -- the reference architectures know)
    if case.archs is not None:
        any_feasible = len(case.archs) > 0
    else:
        any_feasible = any(per and all(len(v) > 0 for v in per.values()) for _, _, per in scen_ref.values())
    enc_ctx = {}
    try:
        gp = GraphProcessor(b.dsg, encoder_type=SelChoiceEncoderType.COMPLETE)
        try:
            enc_ctx = {'conn_enc': ','.join(sorted({type(d_[0].encoder).__name__
                                                    for d_ in gp._conn_choice_data_map.values()}))}
        except Exception:  # noqa
            enc_ctx = {}
        res = gp.get_all_discrete_x()
    except Exception as e:  # noqa
        info = D.exc_info(e)
        if any_feasible or not isinstance(e, (RuntimeError, ValueError)):
            col.violation('processor_exception', sp, {'exc': info, 'any_feasible_scenario': any_feasible}, flags,
                          where={'exc': info['type'], 'site': info['site']})
        return
    if res is None:
        return
    X, A = res
    if len(X) > 1500:
        col.count('skipped_processor_too_many_rows')
        return
    col.count('monitor_processor_enumerations')
    got = {}
    for r in X:
        try:
            g, x1, a1 = gp.get_graph(list(r))
        except Exception as e:  # noqa
            info = D.exc_info(e)
            col.violation('processor_exception', sp, {'row': D.to_list(r), 'exc': info}, flags,
                          where={'exc': info['type'], 'site': info['site'], 'stage': 'decode_row'})
            return
        obs = O.instance(g, b)
        key = S.canon(obs['nodes'])
        per = got.setdefault(key, {})
        for k in sp['conn']:
            sn, tn = set(S.conn_endpoints(k, 'src')), set(S.conn_endpoints(k, 'tgt'))
            have = []
            for u, v, t, c in obs['edges']:
                if t == 'C' and u in sn and v in tn:
                    have += [(u, v)] * c
            per.setdefault(k['id'], set()).add(tuple(sorted(have)))
    for key, (assign, clos, per) in scen_ref.items():
        feasible_ref = all(len(v) > 0 for v in per.values())
        for k in sp['conn']:
            if k['id'] not in per:
                for nme in S.conn_endpoints(k, 'tgt'):
                    es = model.endpoint_spec(nme, clos)
                    if es is not None and not R.deg_ok(es, 0):
                        feasible_ref = False
        if feasible_ref and key not in got:
            col.violation('scenario_lost', sp, {'assign': assign, 'sets': {k: len(v) for k, v in per.items()}}, flags,
                          where=dict(enc_ctx, level='processor'))
        elif not feasible_ref and key in got:
            col.violation('scenario_without_valid_set_is_decoded', sp, {'assign': assign}, flags,
                          where=dict(enc_ctx, level='processor'))
        elif feasible_ref:
            for kid, want in per.items():
                have = got[key].get(kid, set())
                if have != want:
                    col.violation('offered_sets_differ', sp,
                                  {'assign': assign, 'choice': kid, 'missing': sorted(want - have)[:3],
                                   'extra': sorted(have - want)[:3], 'n_ref': len(want), 'n_decoded': len(have)},
                                  flags, where=dict(enc_ctx, dir='missing' if want - have else 'extra', level='processor'))


def sibling_with_moved_exclusion(sp, rnd):
    import copy
    sp = S.normalize(sp)
    for ik, k in enumerate(sp['conn']):
        tn = S.conn_endpoints(k, 'tgt')
        if k.get('exclude') and len(tn) > 1:
            s0, t0 = k['exclude'][0]
            others = [t for t in tn if t != t0 and [s0, t] not in k['exclude']]
            if others:
                sib = copy.deepcopy(sp)
                sib.pop('features', None)
                sib['conn'][ik]['exclude'][0] = [s0, rnd.choice(others)]
                return sib
    return None


def worker(task, col):
    import adsg_core.graph.adsg_nodes as an
    M.Tap(an.ConnectionChoiceNode, 'iter_conn_edges', counter=col.count)
    M.Tap(an.ConnectionChoiceNode, 'validate_conn_edges', counter=col.count)
    if task.get('replay'):
        common.guard(col, check_case, task['replay']['violation']['spec'], col, 'replay')
        return
    if task['shard'] == 0:
        for c in common.corpus('C11'):
            common.guard(col, check_case, c['spec'], col, 'corpus')
    for i in range(task['lo'], task['hi']):
        name, sp = case_spec(task['seed'], i)
        n0 = len(col.violations)
        common.guard(col, check_case, sp, col, name)
        if len(col.violations) > n0:
            common.attribute_to_pattern_encoders(col, n0, lambda c, sp=sp: check_case(sp, c, 'rerun'))
        # a sibling design space in the same process (same on-disk caches): identical connectors, the exclusion edge
        # moved to another target of the same source
        sib = sibling_with_moved_exclusion(sp, gen.rng_for('c11sib', task['seed'], i))
        if sib is not None:
            col.count('sibling_cases')
            common.guard(col, check_case, sib, col, name + '_sibling')


def main(run):
    if run.replay:
        run.map([{'replay': common.load_replay(run.replay), 'shard': 0}])
    else:
        run.map(common.shard_tasks(320 if run.tier == 'quick' else 6000, run.jobs), timeout=3400)
    run.finish('generated DSGs with 1-2 connection choices, 1-3 source and target connectors each permanent or under a '
               'selection option, grouping nodes over conditional members, exclusion edges; per selection scenario: '
               'sets offered by iter_conn_edges vs brute-force reference for the connectors present, validate_conn_edges '
               'on valid and perturbed sets, applying sets; through the complete encoder: scenarios and sets decoded from '
               'all valid design vectors vs reference; non-trivial = a scenario with >=2 valid sets',
               min_nontrivial=15, deciding=['monitor_scenario_evaluations', 'ConnectionChoiceNode.iter_conn_edges'],
               assumptions=['connectors are derived by generic nodes (documented usage); a present connector whose only '
                            'allowed degree is 0 behaves as absent'])
