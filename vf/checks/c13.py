"""C13: choice constraints admit exactly the documented index combinations."""
import itertools
import numpy as np
from .. import gen, spec as S, build as B, observe as O, refmodel as R, drive as D, monitor as M
from . import common
from .decode import obs_key

TYPES = ('LINKED', 'PERMUTATION', 'UNORDERED', 'UNORDERED_NOREPL')


def rel_ok(t, idx):
    if len(idx) < 2:
        return True
    if t == 'LINKED':
        return all(i == idx[0] for i in idx)
    if t == 'PERMUTATION':
        return len(set(idx)) == len(idx)
    if t == 'UNORDERED':
        return all(idx[i] <= idx[i + 1] for i in range(len(idx) - 1))
    return all(idx[i] < idx[i + 1] for i in range(len(idx) - 1))


# --------------------------------------------------------------------------------------------------
# (i) the index-combination functions, exhaustively for all small index matrices
# --------------------------------------------------------------------------------------------------

def unit_level(col):
    import adsg_core.graph.choice_constraints as cc
    import adsg_core as ac
    CT = cc.ChoiceConstraintType
    for t in TYPES:
        for ncol in (1, 2, 3):
            vals = [-1, 0, 1, 2, 3] if ncol < 3 else [-1, 0, 1, 2]
            rows = list(itertools.product(vals, repeat=ncol))
            arr = np.array(rows, dtype=int)
            col.count('monitor_unit_evaluations')
            col.evaluations += 1
            got = set(int(i) for i in cc.get_valid_idx_combinations(arr, getattr(CT, t), is_all_permanent=False))
            want = {i for i, r in enumerate(rows) if rel_ok(t, [v for v in r if v != -1])}
            if got != want:
                bad = sorted(got ^ want)[0]
                col.violation('valid_idx_combinations_wrong', {'type': t, 'n_cols': ncol},
                              {'row': rows[bad], 'function_says_valid': bad in got}, [], where={'type': t})
            col.nontrivial.add('unit|%s|%d' % (t, ncol))
            if t != 'UNORDERED_NOREPL':
                got2 = set(int(i) for i in cc.get_valid_idx_combinations(arr, getattr(CT, t), is_all_permanent=True))
                if got2 != want:
                    bad = sorted(got2 ^ want)[0]
                    col.violation('valid_idx_combinations_wrong', {'type': t, 'n_cols': ncol, 'all_permanent': True},
                                  {'row': rows[bad], 'function_says_valid': bad in got2}, [], where={'type': t})
        # options removed from sibling choices when one is taken / removed up front
        for k in (2, 3):
            for n in (2, 3, 4):
                nodes = [ac.SelectionChoiceNode('c%d' % i) for i in range(k)]
                opts = [[ac.NamedNode('o%d_%d' % (i, j)) for j in range(n)] for i in range(k)]
                con = cc.ChoiceConstraint(getattr(CT, t), nodes, opts)
                for i_taken in range(k):
                    for i_opt in range(n):
                        col.count('monitor_unit_evaluations')
                        removed = dict((nd, set(ro)) for nd, ro in cc.get_constraint_removed_options(con, i_taken, i_opt))
                        for j in range(k):
                            if j == i_taken:
                                continue
                            rem = removed.get(nodes[j], set())
                            for v in range(n):
                                pair = [i_opt, v] if i_taken < j else [v, i_opt]
                                keep_want = rel_ok(t, pair)
                                keep_got = opts[j][v] not in rem
                                if keep_want != keep_got:
                                    col.violation('removed_options_wrong', {'type': t, 'k': k, 'n': n},
                                                  {'taken': [i_taken, i_opt], 'other': j, 'option': v,
                                                   'kept': keep_got, 'should_keep': keep_want}, [], where={'type': t})
                # up-front removal: never removes an option that takes part in a valid full combination;
                # (all-permanent NOREPL: removes exactly the options that take part in none)
                for perm_all in (True, False):
                    pre = dict((nd, set(ro)) for nd, ro in cc.get_constraint_pre_removed_options(
                        con, set(nodes) if perm_all else set()))
                    valid = [c for c in itertools.product(range(n), repeat=k) if rel_ok(t, list(c))]
                    for j in range(k):
                        used = {c[j] for c in valid}
                        for v in range(n):
                            is_removed = opts[j][v] in pre.get(nodes[j], set())
                            if is_removed and v in used and perm_all:
                                col.violation('pre_removed_usable_option', {'type': t, 'k': k, 'n': n},
                                              {'choice': j, 'option': v}, [], where={'type': t})
                            if is_removed and not perm_all and valid:
                                # choices that are not all permanent may end up not active together: nothing that
                                # is usable in some sub-combination may be removed
                                col.violation('pre_removed_option_of_conditional_choices', {'type': t, 'k': k, 'n': n},
                                              {'choice': j, 'option': v}, [], where={'type': t})


# --------------------------------------------------------------------------------------------------
# (ii) graph level: placements x types x sizes (bounded-exhaustive), walk + both encoders vs reference
# --------------------------------------------------------------------------------------------------

def structured_specs():
    for t in TYPES:
        for k in (2, 3):
            for n in (2, 3, 4):
                for placement in ('perm', 'hier', 'hier_all', 'excl'):
                    for rev in (False, True):
                        for shared in (False, True):
                            if k == 3 and n == 4 and placement in ('hier_all',) and shared:
                                continue
                            yield make_spec(t, k, n, placement, rev, shared)


def make_spec(t, k, n, placement, rev, shared):
    """k constrained choices with n options each; ids sort in declaration order, or reversed when rev"""
    ids = ['X%d' % i for i in range(k)]
    if rev:
        ids = list(reversed(ids))
    nodes = [{'id': 'R', 'kind': 'named'}]
    edges, sel = [], []
    shared_opts = ['O%d' % j for j in range(n)]
    if shared:
        nodes += [{'id': o, 'kind': 'named'} for o in shared_opts]

    def opts_for(i):
        if shared:
            return list(shared_opts)
        o = ['O%d_%d' % (i, j) for j in range(n)]
        nodes.extend({'id': x, 'kind': 'named'} for x in o)
        return o

    origins = []
    for i in range(k):
        onode = 'P%d' % i
        nodes.append({'id': onode, 'kind': 'named'})
        origins.append(onode)
    all_opts = [opts_for(i) for i in range(k)]
    if placement == 'perm':
        for o in origins:
            edges.append(['R', o])
    elif placement == 'hier':
        # choice i+1 is only active under the LAST option of choice i (a separate marker node avoids sharing)
        edges.append(['R', origins[0]])
        for i in range(1, k):
            if shared:
                # with shared option nodes the hierarchy goes through an unconstrained gate choice
                gate = 'G%d' % i
                nodes.extend([{'id': gate, 'kind': 'named'}, {'id': gate + 'y', 'kind': 'named'},
                              {'id': gate + 'n', 'kind': 'named'}])
                edges.append(['R', gate])
                sel.append({'key': 'Z%d' % i, 'id': 'Z%d' % i, 'origin': gate, 'options': [gate + 'y', gate + 'n']})
                edges.append([gate + 'y', origins[i]])
            else:
                edges.append([all_opts[i - 1][-1], origins[i]])
    elif placement == 'hier_all':
        edges.append(['R', origins[0]])
        for i in range(1, k):
            if shared:
                edges.append(['R', origins[i]])
            else:
                for o in all_opts[i - 1]:
                    edges.append([o, origins[i]])
    elif placement == 'excl':
        # choice 0 permanent, the others under different options of an unconstrained choice (never together)
        edges.append(['R', origins[0]])
        nodes.append({'id': 'Q', 'kind': 'named'})
        edges.append(['R', 'Q'])
        qo = []
        for i in range(1, k):
            q = 'Q%d' % i
            nodes.append({'id': q, 'kind': 'named'})
            qo.append(q)
            edges.append([q, origins[i]])
        if len(qo) == 1:
            nodes.append({'id': 'Q0', 'kind': 'named'})
            qo.append('Q0')
        sel.append({'key': 'ZQ', 'id': 'ZQ', 'origin': 'Q', 'options': qo})
    for i in range(k):
        sel.append({'key': ids[i], 'id': ids[i], 'origin': origins[i], 'options': all_opts[i]})
    sp = {'nodes': nodes, 'edges': edges, 'sel': sel, 'start': ['R'],
          'constraints': [{'type': t, 'choices': list(ids)}],
          'meta': {'type': t, 'k': k, 'n': n, 'placement': placement, 'rev_ids': rev, 'shared_options': shared}}
    return S.normalize(sp)


def graph_level(sp, col, shard):
    from adsg_core.optimization.graph_processor import GraphProcessor
    from adsg_core.optimization.hierarchy.registry import SelChoiceEncoderType
    col.evaluations += 1
    col.count('cases_' + shard)
    flags = S.classify(sp)
    meta = sp.get('meta', {})
    case = D.Case(sp)
    b, model = case.b, case.model
    where0 = {'type': meta.get('type'), 'placement': meta.get('placement')}
    if b.dsg is None:
        b0 = B.build(sp, constrain=False)
        gone = [k for c in sp['constraints'] for k in c['choices']
                if b0.dsg is None or (k in b0.sel and b0.sel[k] not in b0.dsg.graph.nodes)]
        info0 = D.exc_info(b.error)
        if isinstance(b.error, (ValueError, RuntimeError)) and (info0['site'] or '').endswith(':constrain_choices'):
            col.count('skipped_constraint_rejected_explicitly')   # documented input validation of constrain_choices
            return
        if gone:
            # the description constrains a choice that initialisation has already resolved (single option left):
            # the construction API rejects it; nothing to judge
            col.count('skipped_constraint_on_resolved_choice')
            return
        if case.archs:
            info = D.exc_info(b.error)
            col.violation('constrained_graph_build_error', sp, {'exc': info, 'n_ref': len(case.archs)}, flags,
                          where=dict(where0, exc=info['type']))
        return
    if case.archs is None:
        return
    if 'con_unordered_norepl' in flags:
        where0['norepl_unreduced_all_permanent'] = common.norepl_unreduced_all_permanent(b.dsg)
    ref = case.ref_keys
    # reference restricted to what the constraint allows is computed with the order/option lists the API reports
    col.count('monitor_constraint_cases')
    # ---- walk, all orders ----
    leaves = {}
    for path, g, e in D.walk(b, max_paths=2500):
        if e is not None:
            info = D.exc_info(e)
            col.violation('walk_exception', sp, {'path': path, 'exc': info}, flags,
                          where=dict(where0, level='graph', exc=info['type']))
            continue
        obs = O.instance(g, b)
        if obs['feasible'] and not [c for c in obs['choices'] if c.startswith('S:')]:
            leaves.setdefault(O.arch_key(obs), []).append(path)
    got, want = set(leaves), set(ref)
    if got != want:
        miss = sorted(want - got)
        col.violation('constraint_architectures_differ', sp,
                      {'missing': len(want - got), 'extra': len(got - want), 'n_ref': len(want),
                       'example_missing_assign': ref[miss[0]][0]['assign'] if miss else None,
                       'example_extra_path': leaves[sorted(got - want)[0]][0] if got - want else None,
                       'api_constraints': case.cons}, flags,
                      where=dict(where0, level='graph', dir='missing' if want - got else 'extra'))
    # ---- both encoders ----
    for enc in ('COMPLETE', 'FAST'):
        bb = case.rebuild()
        if bb.dsg is None:
            continue
        try:
            gp = GraphProcessor(bb.dsg, encoder_type=getattr(SelChoiceEncoderType, enc))
            dvs = gp.des_vars
        except Exception as e:  # noqa
            info = D.exc_info(e)
            if want or not isinstance(e, (RuntimeError, ValueError)):
                col.violation('constraint_encoder_exception', sp, {'exc': info, 'n_ref': len(want)}, flags,
                              where=dict(where0, level=enc, exc=info['type'], site=info['site']))
            continue
        rnd = gen.rng_for('c13vec', S.digest(sp), enc)
        vecs, exhaustive = D.declared_space(gp, 1500, rnd)
        keys = set()
        failed = False
        dup = {}
        for x in vecs:
            col.count('monitor_decode_evaluations')
            try:
                g, x1, a1 = gp.get_graph(x)
            except Exception as e:  # noqa
                info = D.exc_info(e)
                if want or not isinstance(e, (RuntimeError, ValueError)):
                    col.violation('constraint_encoder_exception', sp, {'x': x, 'exc': info, 'n_ref': len(want)}, flags,
                                  where=dict(where0, level=enc, exc=info['type'], site=info['site']))
                failed = True
                break
            obs = O.instance(g, bb)
            kx = O.arch_key(obs)
            keys.add(kx)
            prev = dup.setdefault(tuple(D.to_list(x1)), kx)
            if prev != kx:
                col.violation('same_vector_two_architectures', sp, {'x1': D.to_list(x1)}, flags,
                              where=dict(where0, level=enc))
        if failed:
            continue
        if keys - want:
            col.violation('constraint_architectures_differ', sp,
                          {'extra': len(keys - want), 'n_ref': len(want), 'api_constraints': case.cons}, flags,
                          where=dict(where0, level=enc, dir='extra'))
        elif exhaustive and want - keys:
            miss = sorted(want - keys)
            col.violation('constraint_architectures_differ', sp,
                          {'missing': len(want - keys), 'n_ref': len(want),
                           'example_missing_assign': ref[miss[0]][0]['assign'], 'api_constraints': case.cons}, flags,
                          where=dict(where0, level=enc, dir='missing',
                                     linked_partial_only=common.linked_partial_only(
                                         sp, [x['assign'] for k in miss for x in ref[k]]),
                                     linked_full_nonzero_only=common.linked_full_nonzero_only(
                                         sp, [x['assign'] for k in miss for x in ref[k]]),
                                     linked_mixed_only=common.linked_mixed_only(
                                         sp, [x['assign'] for k in miss for x in ref[k]]),
                                     linked_forced_is_first=common.linked_forced_is_first(gp)))
        if enc == 'COMPLETE':
            try:
                res = gp.get_all_discrete_x()
                if res is not None:
                    rows = {tuple(D.to_list(r)) for r in res[0]}
                    if len(rows) != len(res[0]):
                        col.violation('constraint_duplicate_rows', sp, {'n_rows': len(res[0]), 'distinct': len(rows)},
                                      flags, where=dict(where0, level=enc))
                    elif len(rows) != len(want):
                        col.violation('constraint_architectures_differ', sp,
                                      {'n_rows': len(rows), 'n_ref': len(want), 'api_constraints': case.cons}, flags,
                                      where=dict(where0, level='COMPLETE_enumeration',
                                                 dir='missing' if len(rows) < len(want) else 'extra'))
            except Exception as e:  # noqa
                info = D.exc_info(e)
                col.violation('constraint_encoder_exception', sp, {'exc': info, 'stage': 'enumeration'}, flags,
                              where=dict(where0, level=enc, exc=info['type'], site=info['site']))
    if len(want) >= 2:
        col.nontrivial.add(S.digest(sp))
        if len(col.samples) < 2:
            col.sample({'meta': meta, 'spec': common.short(sp), 'reference_architectures': len(want),
                        'api_constraints': case.cons})


def linked_dv(col, seed, n):
    """(iii) linked DV nodes carry equal index / equal relative position (set directly and through decode)"""
    for i in range(n):
        rnd = gen.rng_for('C13dv', seed, i)
        sp = gen.gen_spec(rnd, p_incompat=.1, n_dv=(2, 3), p_dv_cond=.0, p_dv_link=1., n_steps=(2, 5))
        links = [sorted(c['choices']) for c in sp['constraints'] if all(x in S.node_map(sp) for x in c['choices'])]
        if not links:
            continue
        col.evaluations += 1
        b = B.build(sp)
        if b.dsg is None:
            continue
        nm = S.node_map(sp)
        g = b.dsg.copy()
        for grp in links:
            if not all(b.node[x] in g.graph.nodes for x in grp):
                continue
            for lead in grp:
                node = nm[lead]
                v = rnd.randrange(len(node['options'])) if 'options' in node else \
                    node['bounds'][0] + rnd.random() * (node['bounds'][1] - node['bounds'][0])
                if 'options' not in node and rnd.random() < .4:
                    # a value outside the bounds is clamped: the linked nodes follow the CLAMPED value
                    span = node['bounds'][1] - node['bounds'][0]
                    v_raw = rnd.choice([node['bounds'][0] - .3 * span, node['bounds'][1] + .5 * span,
                                        node['bounds'][1] + 1e-3 * span])
                    col.count('monitor_linked_dv_out_of_bounds')
                    g.set_des_var_value(b.node[lead], v_raw)
                    v = min(max(v_raw, node['bounds'][0]), node['bounds'][1])
                else:
                    g.set_des_var_value(b.node[lead], v)
                col.count('monitor_linked_dv_evaluations')
                vals = {b.name(k): val for k, val in g.des_var_values.items()}
                for other in grp:
                    on = nm[other]
                    if other not in vals:
                        col.violation('linked_dv_not_set', sp, {'set': lead, 'missing': other}, S.classify(sp))
                        continue
                    if 'options' in node:
                        ok = int(vals[other]) == int(v)
                    else:
                        f0 = (v - node['bounds'][0]) / (node['bounds'][1] - node['bounds'][0])
                        f1 = (vals[other] - on['bounds'][0]) / (on['bounds'][1] - on['bounds'][0])
                        ok = abs(f0 - f1) < 1e-9
                    if not ok:
                        col.violation('linked_dv_values_differ', sp, {'set': lead, 'value': v, 'other': other,
                                                                      'other_value': vals[other]}, S.classify(sp))
                col.nontrivial.add(S.digest(sp))


def worker(task, col):
    import adsg_core.graph.choice_constraints as cc
    from adsg_core.graph.adsg import DSG
    M.Tap(DSG, 'constrain_choices', counter=col.count)
    if task.get('replay'):
        v = task['replay']['violation']
        if isinstance(v.get('spec'), dict) and 'nodes' in v['spec']:
            common.guard(col, graph_level, S.normalize(v['spec']), col, 'replay')
        else:
            unit_level(col)
        return
    if task.get('kind') == 'unit':
        unit_level(col)
        linked_dv(col, task['seed'], task.get('n_dv', 60))
        return
    if task.get('kind') == 'structured':
        for i, sp in enumerate(structured_specs()):
            if i % task['stride'] == task['offset']:
                common.guard(col, graph_level, sp, col, 'structured')
        return
    if task['shard'] == 0:
        for c in common.corpus('C13'):
            common.guard(col, graph_level, S.normalize(c['spec']), col, 'corpus')
    for i in range(task['lo'], task['hi']):
        rnd = gen.rng_for('C13', task['seed'], i)
        kw = dict(p_incompat=.3, p_constraint=1.0, n_steps=(5, 12))
        if rnd.random() < .3:
            kw.update(allow=('shared_option',), p_opt_existing=.4)
        sp = gen.gen_spec(rnd, **kw)
        if not sp['constraints']:
            continue
        common.guard(col, graph_level, sp, col, 'random')


def main(run):
    exhaustive = False
    if run.replay:
        run.map([{'replay': common.load_replay(run.replay), 'shard': 0}])
    else:
        quick = run.tier == 'quick'
        tasks = [{'kind': 'unit', 'n_dv': 60 if quick else 600}]
        n_struct = len(list(structured_specs()))
        stride = run.jobs * (3 if quick else 1)
        offs = range(run.jobs) if not quick else [(run.seed * 5 + j * 3) % stride for j in range(run.jobs)]
        for j in sorted(set(offs)):
            tasks.append({'kind': 'structured', 'stride': stride, 'offset': j})
        tasks += common.shard_tasks(160 if quick else 4000, run.jobs)
        exhaustive = not quick
        run.map(tasks, timeout=3400)
    run.finish('(i) get_valid_idx_combinations on every index matrix with <=3 columns and values -1..3, '
               'get_constraint_removed_options / get_constraint_pre_removed_options for 2-3 choices x 2-4 options x every '
               'taken (choice, option); (ii) bounded-exhaustive structured DSGs: constraint type x 2-3 choices x 2-4 '
               'options x placement {all permanent, hierarchical, always-active-later, mutually exclusive} x id order '
               '{declaration, reversed} x {fresh, shared option nodes} (thorough: all, quick: a seeded third) + random '
               'DSGs with constraints: all-orders walk, both encoders over the declared space and the complete '
               'enumeration vs the reference; (iii) linked DV nodes; non-trivial = >=2 reference architectures (ii), '
               'every unit configuration (i)',
               min_nontrivial=20, deciding=['monitor_unit_evaluations', 'monitor_constraint_cases',
                                            'monitor_decode_evaluations', 'DSG.constrain_choices'],
               exhaustive=exhaustive,
               assumptions=['constraint order and option lists are read from get_choice_constraints()',
                            'LINKED constraints are generated with equal option counts (the clamping of unequal '
                            'counts is documented in the code only)'])
