"""Independent reference semantics of design space graphs (pure stdlib; never imports adsg_core).

Written from docs/theory.md and the guide:
 * an architecture = derivation closure of the start nodes under derivation edges and
   originating-node -> selected-option edges, one option per *active* selection choice;
 * admissible iff no incompatible pair in the closure, choice constraints hold among the choices
   active together, and every active connection choice has a valid connection set;
 * valid connection sets = integer matrices within per-pair limits whose row/column sums are
   allowed degrees of the connectors present.
"""
import itertools
import math
from . import spec as S

INF = math.inf


# ---------------------------------------------------------------------------------------------
# selection semantics
# ---------------------------------------------------------------------------------------------

class Model:
    max_mats = 1200   # per connection choice and scenario; larger problems raise OverflowError (case skipped)

    def __init__(self, spec, cons=None):
        self.spec = spec = S.normalize(spec)
        self.nodes = S.node_map(spec)
        self.succ = {}
        self.dedges = S.derive_edges(spec)
        for u, v in self.dedges:
            self.succ.setdefault(u, []).append(v)
        self.sel = {c['key']: c for c in spec['sel']}
        self.sel_by_origin = {}
        for c in spec['sel']:
            self.sel_by_origin.setdefault(c['origin'], []).append(c['key'])
        self.incompat = [tuple(p) for p in spec['incompat']]
        self.groups = S.group_members(spec)
        # constraint info: [{type, choices:[keys], options:[[names]]}] -- order/option lists as the API reports
        # them; default: spec order sorted by decision id, declared option order
        if cons is None:
            cons = []
            for c in spec['constraints']:
                if all(x in self.sel for x in c['choices']):
                    keys = sorted(c['choices'], key=lambda k: (self.sel[k]['id'], k))
                    cons.append({'type': c['type'], 'choices': keys,
                                 'options': [list(self.sel[k]['options']) for k in keys]})
        self.cons = cons

    def closure(self, assign):
        seen = set(self.spec['start'])
        todo = list(seen)
        while todo:
            x = todo.pop()
            nxt = list(self.succ.get(x, ()))
            for key in self.sel_by_origin.get(x, ()):
                if key in assign:
                    nxt.append(assign[key])
            for y in nxt:
                if y not in seen:
                    seen.add(y)
                    todo.append(y)
        return seen

    def active(self, clos):
        return [c['key'] for c in self.spec['sel'] if c['origin'] in clos]

    def enumerate(self, limit=200000):
        """all complete, minimal assignments (each once) with their closures"""
        out = []

        def rec(assign):
            clos = self.closure(assign)
            for key in self.active(clos):
                if key not in assign:
                    opts = self.sel[key]['options']
                    for o in opts:
                        a = dict(assign)
                        a[key] = o
                        rec(a)
                        if len(out) > limit:
                            raise OverflowError('too many assignments')
                    return
            out.append((assign, clos))
        rec({})
        return out

    def is_complete_minimal(self, assign):
        clos = self.closure(assign)
        return set(self.active(clos)) == set(assign)

    def incompat_hit(self, clos):
        return [(a, b) for a, b in self.incompat if a in clos and b in clos]

    def constraints_ok(self, assign):
        for con in self.cons:
            idx = []
            for key, opts in zip(con['choices'], con['options']):
                if key in assign:
                    if assign[key] not in opts:
                        return False  # chosen option was pre-removed: not admissible under the constraint
                    idx.append(opts.index(assign[key]))
            if len(idx) < 2:
                continue
            t = con['type']
            if t == 'LINKED':
                ok = all(i == idx[0] for i in idx)
            elif t == 'PERMUTATION':
                ok = len(set(idx)) == len(idx)
            elif t == 'UNORDERED':
                ok = all(idx[i] <= idx[i + 1] for i in range(len(idx) - 1))
            elif t == 'UNORDERED_NOREPL':
                ok = all(idx[i] < idx[i + 1] for i in range(len(idx) - 1))
            else:
                raise ValueError(t)
            if not ok:
                return False
        return True

    def selection_admissible(self, assign, clos=None):
        clos = self.closure(assign) if clos is None else clos
        return not self.incompat_hit(clos) and self.constraints_ok(assign)

    # -----------------------------------------------------------------------------------------
    # connection semantics
    # -----------------------------------------------------------------------------------------

    def endpoint_spec(self, name, clos):
        """allowed degrees of one connector endpoint given the nodes present.
        returns None if absent, else (finite_list or None, min, rep)"""
        if name not in clos:
            return None
        if name in self.groups:
            members = [m for m in self.groups[name] if m in clos]
            if not members:
                return None
            lists, open_min = [], None
            rep = False
            for m in members:
                fl, mn, r = self._plain(m)
                rep = rep or r
                if fl is None:
                    open_min = (open_min or 0) + mn
                else:
                    lists.append(fl)
            if open_min is not None:
                return None, open_min + sum(min(fl) for fl in lists), rep
            sums = sorted({sum(c) for c in itertools.product(*lists)})
            return sums, None, rep
        return self._plain(name)

    def _plain(self, name):
        n = self.nodes[name]
        deg = n.get('deg', {'list': [1]})
        rep = bool(n.get('rep', False))
        if 'list' in deg:
            return sorted(deg['list']), None, rep
        if deg.get('max') is None:
            return None, deg['min'], rep
        return list(range(deg['min'], deg['max'] + 1)), None, rep

    def conn_problem(self, k, clos, max_parallel=None):
        src = S.conn_endpoints(k, 'src')
        tgt = S.conn_endpoints(k, 'tgt')
        s_spec = [self.endpoint_spec(n, clos) for n in src]
        t_spec = [self.endpoint_spec(n, clos) for n in tgt]
        excl = {(a, b) for a, b in k.get('exclude', [])}
        return conn_limits(src, tgt, s_spec, t_spec, excl, max_parallel)

    def conn_active(self, k, clos):
        return any(n in clos for n in S.conn_endpoints(k, 'src'))

    def conn_sets(self, k, clos, max_parallel=None):
        """list of valid matrices (tuple of tuple) for connection choice k given the present nodes"""
        src, tgt, s_spec, t_spec, L = self.conn_problem(k, clos, max_parallel)
        return enum_matrices(s_spec, t_spec, L, limit=self.max_mats)

    # -----------------------------------------------------------------------------------------
    # architectures
    # -----------------------------------------------------------------------------------------

    def architectures(self, with_conn=True, with_dv=False, limit=200000):
        """list of dicts {assign, nodes, conn: {kid: matrix}, dv: {name: idx}} of all admissible architectures"""
        out = []
        for assign, clos in self.enumerate(limit=limit):
            if not self.selection_admissible(assign, clos):
                continue
            conn_opts = []
            ok = True
            for k in self.spec['conn']:
                if not with_conn:
                    break
                if self.conn_active(k, clos):
                    mats = self.conn_sets(k, clos)
                    if not mats:
                        ok = False
                        break
                    conn_opts.append([(k['id'], m) for m in mats])
                else:
                    # no source present: every present target must accept zero connections
                    for n in S.conn_endpoints(k, 'tgt'):
                        es = self.endpoint_spec(n, clos)
                        if es is not None and not deg_ok(es, 0):
                            ok = False
            if not ok:
                continue
            dv_opts = []
            if with_dv:
                # linked design-variable nodes share one value: one variable per group with a present member, named
                # after the group's representative (dv_rep)
                rep = self.dv_rep()
                done = set()
                for n in self.spec['nodes']:
                    if n['kind'] == 'dv' and 'options' in n and n['id'] in clos and rep[n['id']] not in done:
                        done.add(rep[n['id']])
                        dv_opts.append([(rep[n['id']], i) for i in range(len(n['options']))])
            for combo in itertools.product(*conn_opts):
                for dcombo in itertools.product(*dv_opts):
                    out.append({'assign': assign, 'nodes': clos, 'conn': dict(combo), 'dv': dict(dcombo)})
                    if len(out) > limit:
                        raise OverflowError('too many architectures')
        return out

    def dv_rep(self):
        """design-variable node -> representative of its LINKED group (itself if not linked)"""
        rep = {n['id']: n['id'] for n in self.spec['nodes'] if n['kind'] == 'dv'}
        for c in self.spec['constraints']:
            if all(x in rep for x in c['choices']):
                r = min(rep[x] for x in c['choices'])
                old = {rep[x] for x in c['choices']}
                for k in rep:
                    if rep[k] in old:
                        rep[k] = r
        return rep

    def arch_edges(self, assign, clos, conn=None):
        """edge multiset {(u, v, 'D'|'C'): count} of an architecture"""
        edges = {}
        for u, v in self.dedges:
            if u in clos and v in clos:
                edges[(u, v, 'D')] = edges.get((u, v, 'D'), 0) + 1
        for key, o in assign.items():
            u = self.sel[key]['origin']
            edges[(u, o, 'D')] = edges.get((u, o, 'D'), 0) + 1
        for k in self.spec['conn']:
            if conn and k['id'] in conn:
                src = S.conn_endpoints(k, 'src')
                tgt = S.conn_endpoints(k, 'tgt')
                for i, row in enumerate(conn[k['id']]):
                    for j, c in enumerate(row):
                        if c:
                            edges[(src[i], tgt[j], 'C')] = c
        return edges

    def arch_key(self, assign, clos, conn=None, dv=None):
        e = self.arch_edges(assign, clos, conn)
        return S.canon({'n': sorted(clos), 'e': sorted([list(k) + [v] for k, v in e.items()]),
                        'dv': sorted((dv or {}).items())})

    def permanent(self):
        return self.closure({})


def deg_ok(es, d):
    fl, mn, _ = es
    if fl is not None:
        return d in fl
    return d >= mn


def conn_limits(src, tgt, s_spec, t_spec, excl, max_parallel=None):
    """per-pair limit matrix L for the given endpoint specs (None = absent)"""
    finite = []
    for es in s_spec + t_spec:
        if es is None:
            continue
        fl = es[0]
        if fl is not None and fl != [0] and len(fl) > 0:
            finite.append(max(fl))
    if max_parallel is not None:
        P = max(1, max_parallel)
    else:
        P = max([2] + finite)
    L = []
    for i, a in enumerate(s_spec):
        row = []
        for j, b in enumerate(t_spec):
            if a is None or b is None or (src[i], tgt[j]) in excl:
                row.append(0)
                continue
            lim = P
            if a[0] is not None:
                lim = min(lim, max(a[0]) if a[0] else 0)
            if b[0] is not None:
                lim = min(lim, max(b[0]) if b[0] else 0)
            if not a[2] or not b[2]:
                lim = min(lim, 1)
            row.append(lim)
        L.append(row)
    return src, tgt, s_spec, t_spec, L


def enum_matrices(s_spec, t_spec, L, limit=2000000):
    """all integer matrices 0<=M<=L with allowed row sums (sources) and column sums (targets);
    absent endpoints (None) must have degree 0"""
    n, m = len(s_spec), len(t_spec)

    def allowed(es, d):
        if es is None:
            return d == 0
        return deg_ok(es, d)

    def maxdeg(es, cap):
        if es is None:
            return 0
        if es[0] is not None:
            return min(cap, max(es[0]) if es[0] else 0)
        return cap

    col_cap = [sum(L[i][j] for i in range(n)) for j in range(m)]
    col_max = [maxdeg(t_spec[j], col_cap[j]) for j in range(m)]
    out = []
    M = [[0] * m for _ in range(n)]
    col_sum = [0] * m

    def rec_row(i):
        if i == n:
            if all(allowed(t_spec[j], col_sum[j]) for j in range(m)):
                out.append(tuple(tuple(r) for r in M))
                if len(out) > limit:
                    raise OverflowError('too many matrices')
            return
        row_cap = sum(L[i])
        row_max = maxdeg(s_spec[i], row_cap)

        def rec_cell(j, rs):
            if j == m:
                if allowed(s_spec[i], rs):
                    rec_row(i + 1)
                return
            for c in range(0, L[i][j] + 1):
                if rs + c > row_max:
                    break
                if col_sum[j] + c > col_max[j]:
                    break
                M[i][j] = c
                col_sum[j] += c
                rec_cell(j + 1, rs + c)
                col_sum[j] -= c
            M[i][j] = 0
        rec_cell(0, 0)
    rec_row(0)
    return out


def brute_matrices(s_spec, t_spec, L):
    """plain brute force over the full product (used to cross-check enum_matrices in the self test)"""
    n, m = len(s_spec), len(t_spec)
    cells = [(i, j) for i in range(n) for j in range(m)]
    out = []
    for vals in itertools.product(*[range(L[i][j] + 1) for i, j in cells]):
        M = [[0] * m for _ in range(n)]
        for (i, j), v in zip(cells, vals):
            M[i][j] = v
        ok = True
        for i in range(n):
            d = sum(M[i])
            ok = ok and ((d == 0) if s_spec[i] is None else deg_ok(s_spec[i], d))
        for j in range(m):
            d = sum(M[i][j] for i in range(n))
            ok = ok and ((d == 0) if t_spec[j] is None else deg_ok(t_spec[j], d))
        if ok:
            out.append(tuple(tuple(r) for r in M))
    return out


# ---------------------------------------------------------------------------------------------
# settings-level reference (C09/C10/C12): connector settings without a graph
# ---------------------------------------------------------------------------------------------

def settings_problem(cs, pattern=None):
    """cs as in build.make_settings; pattern = one entry of cs['patterns'] or None (all exist)."""
    def es(n):
        deg = n['deg']
        rep = bool(n.get('rep', False))
        if 'list' in deg:
            return sorted(deg['list']), None, rep
        if deg.get('max') is None:
            return None, deg['min'], rep
        return list(range(deg['min'], deg['max'] + 1)), None, rep

    s_spec = [es(n) for n in cs['src']]
    t_spec = [es(n) for n in cs['tgt']]
    if pattern is not None:
        for specs, ex_key, ov_key in ((s_spec, 'src_exists', 'src_override'), (t_spec, 'tgt_exists', 'tgt_override')):
            ov = {int(k): v for k, v in (pattern.get(ov_key) or {}).items()}
            for i, lst in ov.items():
                specs[i] = (sorted(lst), None, specs[i][2])
            ex = pattern.get(ex_key)
            if ex is not None:
                for i, e in enumerate(ex):
                    if not e:
                        specs[i] = None
    # a present node whose only allowed degree is 0 behaves as absent
    for specs in (s_spec, t_spec):
        for i, e in enumerate(specs):
            if e is not None and e[0] is not None and (e[0] == [0] or len(e[0]) == 0):
                specs[i] = None if e[0] == [0] else e
    src = list(range(len(s_spec)))
    tgt = list(range(len(t_spec)))
    excl = {(i, j) for i, j in cs.get('excluded') or []}
    return conn_limits(src, tgt, s_spec, t_spec, excl, cs.get('max_conn_parallel'))


def settings_matrices(cs, pattern=None):
    _, _, s_spec, t_spec, L = settings_problem(cs, pattern)
    return enum_matrices(s_spec, t_spec, L)


# ---------------------------------------------------------------------------------------------
# self test against the worked tables of the documentation
# ---------------------------------------------------------------------------------------------

THEORY_SEL = {
    'nodes': [{'id': 'N%d' % i, 'kind': 'named'} for i in range(14)],
    'edges': [['N0', 'N2'], ['N1', 'N2'], ['N1', 'N3'], ['N4', 'N7'], ['N5', 'N7'], ['N5', 'N6'],
              ['N13', 'N7'], ['N6', 'N8'], ['N8', 'N9'], ['N9', 'N10'], ['N10', 'N8']],
    'sel': [{'key': 'C1', 'origin': 'N3', 'options': ['N4', 'N5', 'N6', 'N12', 'N13']},
            {'key': 'C2', 'origin': 'N7', 'options': ['N8', 'N11']}],
    'incompat': [['N2', 'N12'], ['N9', 'N13']],
    'start': ['N1'],
}

THEORY_CONN = {
    'nodes': [{'id': 'N0', 'kind': 'named'}, {'id': 'N1', 'kind': 'named'},
              {'id': 'S1', 'kind': 'conn', 'deg': {'list': [1, 2]}, 'rep': True},
              {'id': 'S2', 'kind': 'conn', 'deg': {'list': [1, 2]}, 'rep': True},
              {'id': 'S3', 'kind': 'conn', 'deg': {'min': 0}, 'rep': True},
              {'id': 'T1', 'kind': 'conn', 'deg': {'list': [1]}, 'rep': False},
              {'id': 'T2', 'kind': 'conn', 'deg': {'list': [0, 2]}, 'rep': True},
              {'id': 'Grp', 'kind': 'grp'}],
    'edges': [['N0', 'S3'], ['S2', 'S1'], ['N1', 'T1'], ['N1', 'T2']],
    'sel': [{'key': 'C1', 'origin': 'N0', 'options': ['S1', 'S2']}],
    'conn': [{'id': 'C2', 'src': [{'grp': 'Grp', 'members': ['S1', 'S2']}, 'S3'], 'tgt': ['T1', 'T2']}],
    'start': ['N0', 'N1'],
}


def selftest():
    """returns list of failure strings (empty = ok)"""
    fails = []
    m = Model(THEORY_SEL)
    allr = m.enumerate()
    ok = [(a, c) for a, c in allr if m.selection_admissible(a, c)]
    if len(ok) != 6:
        fails.append('theory selection example: %d admissible (expected 6)' % len(ok))
    if len(allr) - len(ok) != 2:
        fails.append('theory selection example: %d infeasible (expected 2)' % (len(allr) - len(ok)))
    if m.permanent() != {'N1', 'N2', 'N3'}:
        fails.append('theory permanent nodes %r' % sorted(m.permanent()))
    arch5 = [c for a, c in ok if a.get('C1') == 'N6']
    if not arch5 or arch5[0] != {'N1', 'N2', 'N3', 'N6', 'N8', 'N9', 'N10'}:
        fails.append('theory arch 5 wrong')
    mc = Model(THEORY_CONN)
    archs = mc.architectures()
    by = {}
    for a in archs:
        by.setdefault(a['assign']['C1'], set()).add(a['conn']['C2'])
    yes = {((0, 2), (1, 0)), ((1, 1), (0, 1)), ((1, 2), (0, 0))}
    no = {((0, 1), (1, 1)), ((1, 0), (0, 0)), ((1, 0), (0, 2)), ((0, 2), (1, 0)), ((1, 1), (0, 1))}
    if by.get('S2') != yes:
        fails.append('theory connection example (S2 exists): %r' % sorted(by.get('S2', ())))
    if by.get('S1') != no:
        fails.append('theory connection example (S2 absent): %r' % sorted(by.get('S1', ())))
    # brute-force cross-check of the pruned enumerator
    import random
    rnd = random.Random(7)
    for _ in range(60):
        def r_es():
            t = rnd.random()
            if t < .15:
                return None
            if t < .6:
                return (sorted(rnd.sample(range(4), rnd.randint(1, 3))), None, rnd.random() < .5)
            return (None, rnd.randint(0, 2), rnd.random() < .5)
        s = [r_es() for _ in range(rnd.randint(1, 2))]
        t = [r_es() for _ in range(rnd.randint(1, 3))]
        _, _, _, _, L = conn_limits(list(range(len(s))), list(range(len(t))), s, t, set())
        if set(enum_matrices(s, t, L)) != set(brute_matrices(s, t, L)):
            fails.append('enum_matrices != brute force for %r %r' % (s, t))
            break
    # Jenatton space of the guide: 4 architectures
    jen = {'nodes': [{'id': x, 'kind': 'named'} for x in ['S', 'a0', 'a1', 'b0', 'b1', 'c0', 'c1']],
           'edges': [], 'start': ['S'],
           'sel': [{'key': 'x1', 'origin': 'S', 'options': ['a0', 'a1']},
                   {'key': 'x2', 'id': 'x1', 'origin': 'a0', 'options': ['b0', 'b1']},
                   {'key': 'x3', 'id': 'x1', 'origin': 'a1', 'options': ['c0', 'c1']}]}
    if len(Model(jen).architectures()) != 4:
        fails.append('jenatton')
    return fails
