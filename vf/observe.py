"""Canonical (JSON-able, name-based) observations of library objects."""
import math
from . import spec as S

_ET = {1: 'D', 2: 'C', 3: 'X', 4: 'I'}


def _etype(data):
    try:
        return _ET.get(data['type'].value, '?')
    except Exception:  # noqa
        return '?'


def instance(dsg, b, deep=False) -> dict:
    """observation of one DSG object through its public API; names via Built b"""
    import adsg_core.graph.adsg_nodes as an
    g = dsg.graph
    nodes, choices = [], []
    for n in g.nodes:
        (choices if isinstance(n, an.ChoiceNode) else nodes).append(b.name(n))
    edges = {}
    for u, v, data in g.edges(data=True):
        k = (b.name(u), b.name(v), _etype(data))
        edges[k] = edges.get(k, 0) + 1
    obs = {
        'nodes': sorted(nodes),
        'choices': sorted(choices),
        'edges': sorted([list(k) + [c] for k, c in edges.items()]),
        'final': bool(dsg.final),
        'feasible': bool(dsg.feasible),
        'dv': sorted((b.name(n), _num(v)) for n, v in dsg.des_var_values.items()),
        'metric': sorted((b.name(n), _num(v)) for n, v in dsg.metric_values.items()),
    }
    if deep:
        try:
            nxt = dsg.get_ordered_next_choice_nodes()
        except Exception as e:  # noqa
            nxt = ['ERR:' + type(e).__name__]
        obs['next'] = [b.name(n) if not isinstance(n, str) else n for n in nxt]
        opts = {}
        for n in g.nodes:
            if isinstance(n, an.SelectionChoiceNode):
                opts[b.name(n)] = [b.name(o) for o in dsg.get_option_nodes(n)]
        obs['options'] = sorted(opts.items())
        degs = {}
        for n in g.nodes:
            if isinstance(n, an.ConnectorNode):
                degs[b.name(n)] = [n.deg_list, n.deg_min, _num(n.deg_max), bool(n.repeated_allowed)]
        obs['deg'] = sorted(degs.items())
        obs['start'] = sorted(b.name(n) for n in (dsg.derivation_start_nodes or []))
        obs['constraints'] = [[c.type.name, [b.name(n) for n in c.nodes],
                               None if c.options is None else [[b.name(o) for o in ol] for ol in c.options]]
                              for c in dsg.get_choice_constraints()]
    return obs


def conn_sets(dsg, b) -> dict:
    """valid connection sets offered for each connection choice present (names, sorted multisets)"""
    import adsg_core.graph.adsg_nodes as an
    out = {}
    for n in dsg.graph.nodes:
        if isinstance(n, an.ConnectionChoiceNode):
            sets = []
            for edges in n.iter_conn_edges(dsg):
                sets.append(sorted((b.name(u), b.name(v)) for u, v in edges))
            out[b.name(n)] = sorted(sets)
    return out


def _num(v):
    if v is None:
        return None
    if hasattr(v, 'item'):
        v = v.item()
    if isinstance(v, float):
        if math.isinf(v):
            return 'inf'
        if math.isnan(v):
            return 'nan'
        return round(v, 12)
    return v


def arch_key(obs, with_dv=False) -> str:
    """architecture identity: node-name set + multiset of derivation/connection edges (+ DV values)"""
    e = [x for x in obs['edges'] if x[2] in ('D', 'C') and not x[0].startswith(('S:', 'K:', 'SEL<'))
         and not x[1].startswith(('S:', 'K:', 'SEL<'))]
    d = {'n': obs['nodes'], 'e': e}
    d['dv'] = obs['dv'] if with_dv else []
    return S.canon(d)


def ref_arch_key(model, arch, dv_values=None) -> str:
    """same identity computed from a reference architecture"""
    e = model.arch_edges(arch['assign'], arch['nodes'], arch.get('conn'))
    d = {'n': sorted(arch['nodes']), 'e': sorted([list(k) + [v] for k, v in e.items()]),
         'dv': sorted(dv_values) if dv_values else []}
    return S.canon(d)


def read_assignment(obs, model, hint=None):
    """Recover the option assignment from an instance: for every choice whose originating node is present,
    the option that received an extra originating-node -> option edge.  Returns (assign, problems)."""
    ecount = {}
    for u, v, t, c in obs['edges']:
        if t == 'D':
            ecount[(u, v)] = c
    base = {}
    for u, v in model.dedges:
        base[(u, v)] = base.get((u, v), 0) + 1
    present = set(obs['nodes'])
    assign, problems = {}, []
    for origin, keys in model.sel_by_origin.items():
        if origin not in present:
            continue
        extra = {}
        for key in keys:
            for o in model.sel[key]['options']:
                if o in present:
                    x = ecount.get((origin, o), 0) - base.get((origin, o), 0)
                    if x > 0:
                        extra[o] = x
        # distribute the extra edges over the choices at this origin: each choice gets exactly one, all used
        keys_s = sorted(keys)

        def match(i, remaining, acc):
            if i == len(keys_s):
                return dict(acc) if not any(v > 0 for v in remaining.values()) else None
            key = keys_s[i]
            cands = [o for o in model.sel[key]['options'] if remaining.get(o, 0) > 0]
            if hint and hint.get(key) in cands:
                cands = [hint[key]] + [c for c in cands if c != hint[key]]
            for o in cands:
                remaining[o] -= 1
                acc[key] = o
                r = match(i + 1, remaining, acc)
                remaining[o] += 1
                if r is not None:
                    return r
                del acc[key]
            return None

        m = match(0, dict(extra), {})
        if m is None:
            problems.append('option edges at present origin %s (%r) do not select exactly one option for each of '
                            'its choices %r' % (origin, extra, keys_s))
        else:
            assign.update(m)
    return assign, problems


def des_vars(gp, b, all_=False) -> list:
    dvs = gp.all_des_vars if all_ else gp.des_vars
    out = []
    for dv in dvs:
        d = {'name': dv.name, 'disc': bool(dv.is_discrete), 'cond': bool(dv.conditionally_active),
             'node': b.name(dv.node) if dv.node is not None else None}
        if dv.is_discrete:
            d['n_opts'] = dv.n_opts
            d['options'] = [b.name(o) if not isinstance(o, (int, str, float)) else o for o in dv.options]
        else:
            d['bounds'] = [float(dv.bounds[0]), float(dv.bounds[1])]
        out.append(d)
    return out
