"""Run context shared by all checks: sharding over sub-processes, verdicts, known findings, evidence, replay."""
import os
import sys
import json
import time
import shutil
import tempfile
import subprocess
import concurrent.futures as cf
from . import spec as S

ROOT = os.path.dirname(os.path.dirname(os.path.abspath(__file__)))
PY = '/venv/bin/python'
DEPS = os.path.join(ROOT, '.deps')
WHEELS = '/opt/veriftools/wheels'

EXIT_HELD, EXIT_VIOLATED, EXIT_INCONCLUSIVE = 0, 1, 2


def ensure_deps():
    """nothing to install: the monitors are the harness's own call taps / registries (vf/monitor.py); the
    repository's interpreter (/venv) already has everything the workload needs"""
    return


def child_env(repo, cache_dir, hashseed='0', extra=None):
    env = dict(os.environ)
    env['PYTHONPATH'] = os.pathsep.join([repo, ROOT])
    env['PYTHONHASHSEED'] = str(hashseed)
    env['XDG_CACHE_HOME'] = cache_dir
    env['NUMBA_CACHE_DIR'] = os.path.join(cache_dir, 'numba')
    env['PYTHONDONTWRITEBYTECODE'] = '1'
    env['MPLBACKEND'] = 'Agg'
    for k in ('OMP_NUM_THREADS', 'OPENBLAS_NUM_THREADS', 'MKL_NUM_THREADS', 'NUMBA_NUM_THREADS', 'NUMEXPR_NUM_THREADS'):
        env[k] = '1'
    env.pop('PYTHONSTARTUP', None)
    if extra:
        env.update({k: str(v) for k, v in extra.items()})
    return env


def run_worker(task, repo, timeout, hashseed='0', extra_env=None, cache_dir=None):
    """run one worker task in a fresh interpreter; returns (result dict | None, diagnostic str)"""
    own_cache = cache_dir is None
    if own_cache:
        cache_dir = tempfile.mkdtemp(prefix='vfcache_')
    try:
        env = child_env(repo, cache_dir, hashseed, extra_env)
        p = subprocess.run([PY, '-X', 'faulthandler', '-m', 'vf.worker'], input=json.dumps(task), text=True,
                           capture_output=True, timeout=timeout, env=env, cwd=ROOT)
        marker = '@@RESULT@@'
        for line in reversed(p.stdout.splitlines()):
            if line.startswith(marker):
                return json.loads(line[len(marker):]), ''
        err = p.stderr or p.stdout or ''
        i = err.find('Fatal Python error')
        if os.environ.get('VERIF_CRASH_DIR'):
            with open(os.path.join(os.environ['VERIF_CRASH_DIR'], 'crash_%d.log' % os.getpid()), 'a') as fp:
                fp.write(json.dumps(task)[:300] + '\n' + err + '\n=====\n')
        return None, 'worker exit %s without result: %s' % (p.returncode, err[i:i + 1500] if i >= 0 else err[-1500:])
    except subprocess.TimeoutExpired:
        return None, 'worker timed out after %ss' % timeout
    finally:
        if own_cache:
            shutil.rmtree(cache_dir, ignore_errors=True)


def load_known():
    path = os.path.join(ROOT, 'known_findings.json')
    if not os.path.exists(path):
        return []
    with open(path) as fp:
        return json.load(fp)['findings']


def match_finding(f, v):
    """does known finding f (status open) accept violation record v?  Matching is by symptom class and
    structural trigger (feature flags / site), never by seed, hash or random value."""
    m = f.get('match', {})
    if 'any_of' in m:
        return any(match_finding({'match': alt}, v) for alt in m['any_of'])
    if v.get('symptom') not in _aslist(m.get('symptom')):
        return False
    flags = set(v.get('flags', []))
    if m.get('flags_any') and not (flags & set(m['flags_any'])):
        return False
    if m.get('flags_all') and not set(m['flags_all']) <= flags:
        return False
    if m.get('flags_none') and (flags & set(m['flags_none'])):
        return False
    for k, want in (m.get('where') or {}).items():
        if v.get('where', {}).get(k) not in _aslist(want):
            return False
    for k, pat in (m.get('where_re') or {}).items():
        import re
        if not re.search(pat, str(v.get('where', {}).get(k))):
            return False
    for k, pat in (m.get('detail_re') or {}).items():
        import re
        d = v.get('detail')
        val = d.get(k) if isinstance(d, dict) else None
        if not re.search(pat, S.canon(val) if not isinstance(val, str) else val):
            return False
    return True


def _aslist(x):
    if x is None:
        return []
    return x if isinstance(x, list) else [x]


class Run:
    """parent-side context of one check run"""

    def __init__(self, prop, tier, seed, repo, replay=None, jobs=None):
        self.prop, self.tier, self.seed, self.repo, self.replay = prop, tier, seed, repo, replay
        self.jobs = jobs or min(16, os.cpu_count() or 4)
        self.t0 = time.time()
        self.results = []
        self.diag = []
        self.n_tasks = 0
        self.n_failed_tasks = 0

    # --- execution -------------------------------------------------------------------------
    def map(self, tasks, timeout=900, hashseed='0', extra_env=None):
        """run tasks (dicts) in parallel sub-processes; returns list of results (None for failures)"""
        for t in tasks:
            t.setdefault('prop', self.prop)
            t.setdefault('tier', self.tier)
            t.setdefault('seed', self.seed)
        out = [None] * len(tasks)
        with cf.ThreadPoolExecutor(max_workers=self.jobs) as ex:
            futs = {}
            for i, t in enumerate(tasks):
                hs = t.pop('_hashseed', hashseed)
                ee = dict(extra_env or {})
                ee.update(t.pop('_env', {}) or {})
                futs[ex.submit(run_worker, t, self.repo, t.pop('_timeout', timeout), hs, ee,
                               t.pop('_cache_dir', None))] = i
            for f in cf.as_completed(futs):
                res, diag = f.result()
                i = futs[f]
                out[i] = res
                self.n_tasks += 1
                if res is None:
                    self.n_failed_tasks += 1
                    self.diag.append('task %d: %s' % (i, diag))
        self.results.extend([r for r in out if r is not None])
        return out

    # --- verdict ---------------------------------------------------------------------------
    def finish(self, rule, min_nontrivial=2, deciding=None, extra_cov=None, assumptions=None, exhaustive=False,
               level='exploration'):
        """merge worker results, classify violations, write evidence + replay files, print verdict, exit."""
        evaluations = sum(r.get('evaluations', 0) for r in self.results)
        hashes = set()
        for r in self.results:
            hashes.update(r.get('nontrivial', []))
        counters = {}
        for r in self.results:
            for k, v in (r.get('counters') or {}).items():
                counters[k] = counters.get(k, 0) + v
        samples = []
        for r in self.results:
            for s in r.get('samples', []):
                if len(samples) < 3:
                    samples.append(s)
        violations = [v for r in self.results for v in r.get('violations', [])]
        inconclusive = [x for r in self.results for x in r.get('inconclusive', [])]

        known = [f for f in load_known() if self.prop in _aslist(f['property']) and f.get('status') == 'open']
        kf_hits, unlisted = {}, []
        for v in violations:
            for f in known:
                if match_finding(f, v):
                    h = kf_hits.setdefault(f['id'], {'count': 0, 'samples': []})
                    h['count'] += 1
                    if len(h['samples']) < 3:
                        h['samples'].append({'spec': v.get('spec'), 'detail': str(v.get('detail'))[:400],
                                             'flags': v.get('flags')})
                    break
            else:
                unlisted.append(v)

        # distinct unlisted mechanisms
        mech = {}
        for v in unlisted:
            k = (v.get('symptom'), tuple(sorted(set(v.get('flags', [])) & S.EXOTIC)), S.canon(v.get('where', {})))
            mech.setdefault(k, []).append(v)

        reasons = []
        if self.n_tasks and self.n_failed_tasks > max(0, int(.02 * self.n_tasks)) and self.n_failed_tasks >= 1:
            if self.n_failed_tasks / self.n_tasks > .02:
                reasons.append('%d/%d worker tasks failed: %s' % (self.n_failed_tasks, self.n_tasks,
                                                                  '; '.join(self.diag)[:600]))
        if len(hashes) < min_nontrivial:
            reasons.append('only %d distinct non-trivial cases (< %d)' % (len(hashes), min_nontrivial))
        for name in (deciding or []):
            if counters.get(name, 0) == 0:
                reasons.append('deciding monitor %s was never evaluated' % name)
        if inconclusive and len(inconclusive) > .02 * max(1, evaluations):
            reasons.append('%d inconclusive cases: %s' % (len(inconclusive), inconclusive[0]))

        cov = {'evaluations': int(evaluations), 'distinct_nontrivial': len(hashes), 'rule': rule,
               'samples': samples or [{'note': 'no sample recorded'}], 'exhaustive': bool(exhaustive),
               'monitor_counters': counters,
               'known_finding_hits': kf_hits, 'unlisted_violation_mechanisms': len(mech),
               'worker_tasks': self.n_tasks, 'worker_tasks_failed': self.n_failed_tasks,
               'inconclusive_cases': len(inconclusive)}
        if extra_cov:
            cov.update(extra_cov)
        ev = {'property_id': self.prop, 'tier': self.tier, 'seed': int(self.seed), 'level': level,
              'coverage': cov, 'assumptions': assumptions or [], 'wall_s': round(time.time() - self.t0, 2),
              'violations': len(unlisted)}
        # evidence/<id>.json only ever describes the repository itself: runs against a scratch tree (--repo, used to
        # try seeded changes) and replays write to the git-ignored evidence/scratch/
        scratch = os.path.realpath(self.repo) != os.path.realpath(os.environ.get('VERIF_REPO_HOME', '/repo')) \
            or bool(self.replay)
        ev_dir = os.path.join(ROOT, 'evidence', 'scratch') if scratch else os.path.join(ROOT, 'evidence')
        ev['repo'] = self.repo
        os.makedirs(ev_dir, exist_ok=True)
        with open(os.path.join(ev_dir, '%s.json' % self.prop), 'w') as fp:
            json.dump(ev, fp, indent=1, default=S._default)

        for f in known:
            if f['id'] in kf_hits:
                print('KNOWN-FINDING: property=%s %s [%s, %d cases this run]' %
                      (self.prop, f['what'], f['id'], kf_hits[f['id']]['count']))
        print('%s %s seed=%s: %d evaluations, %d distinct non-trivial, %d known-finding hits, %d unlisted '
              'violations, %.1fs' % (self.prop, self.tier, self.seed, evaluations, len(hashes),
                                     sum(h['count'] for h in kf_hits.values()), len(unlisted),
                                     time.time() - self.t0))
        if os.environ.get('VERIF_DEBUG'):
            print('  DEBUG worker wall_s:', sorted([(r.get('wall_s'), r.get('task')) for r in self.results],
                                                  key=lambda t: -(t[0] or 0))[:4])
            for x in inconclusive[:3]:
                print('  DEBUG inconclusive:', str(x)[:1500])
            for x in self.diag[:3]:
                print('  DEBUG diag:', str(x)[:1500])
            brk = {}
            for v in unlisted:
                k = (v.get('symptom'), tuple(sorted(set(v.get('flags', [])) & S.EXOTIC)))
                brk[k] = brk.get(k, 0) + 1
            for k, n in sorted(brk.items(), key=lambda kv: -kv[1])[:60]:
                print('  DEBUG %5d %s %s' % (n, k[0], list(k[1])))
            with open(os.path.join(ROOT, 'evidence', '%s.debug.json' % self.prop), 'w') as fp:
                json.dump(unlisted[:300], fp, indent=1, default=S._default)
        if mech:
            rdir = os.path.join(ROOT, 'replays', self.prop)
            os.makedirs(rdir, exist_ok=True)
            for i, (k, vs) in enumerate(sorted(mech.items(), key=lambda kv: -len(kv[1]))[:5]):
                v = min(vs, key=lambda x: len(S.canon(x.get('spec'))))
                path = os.path.join(rdir, '%s_%s.json' % (k[0], S.digest(v.get('spec'))))
                with open(path, 'w') as fp:
                    json.dump({'property': self.prop, 'seed': self.seed, 'tier': self.tier, 'violation': v,
                               'n_cases_with_this_mechanism': len(vs)}, fp, indent=1, default=S._default)
                print('VIOLATION property=%s replay=%s' % (self.prop, os.path.relpath(path, ROOT)))
                print('  mechanism: %s flags=%s detail=%s' % (k[0], list(k[1]), str(v.get('detail'))[:300]))
            sys.exit(EXIT_VIOLATED)
        if reasons:
            print('INCONCLUSIVE property=%s reason=%s' % (self.prop, ' | '.join(reasons)))
            sys.exit(EXIT_INCONCLUSIVE)
        sys.exit(EXIT_HELD)


class Collector:
    """worker-side accumulator"""

    def __init__(self):
        self.evaluations = 0
        self.nontrivial = set()
        self.violations = []
        self.counters = {}
        self.samples = []
        self.inconclusive = []

    def count(self, name, n=1):
        self.counters[name] = self.counters.get(name, 0) + n

    def violation(self, symptom, spec, detail, flags=None, where=None, **extra):
        if flags is None and isinstance(spec, dict):
            flags = spec.get('features') or S.classify(S.normalize(spec)) if 'nodes' in spec else []
        v = {'symptom': symptom, 'spec': spec, 'detail': detail, 'flags': sorted(flags or []), 'where': where or {}}
        v.update(extra)
        if len(self.violations) < 400:
            self.violations.append(v)
        self.count('violations_raw')

    def sample(self, s):
        if len(self.samples) < 3:
            self.samples.append(s)

    def result(self):
        return {'evaluations': self.evaluations, 'nontrivial': sorted(self.nontrivial),
                'violations': self.violations, 'counters': self.counters, 'samples': self.samples,
                'inconclusive': self.inconclusive[:50]}
