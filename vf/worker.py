"""worker entry point: reads one task (JSON) from stdin, runs it, prints @@RESULT@@<json>"""
import sys
import json
import importlib
import traceback
import faulthandler


def main():
    faulthandler.enable()
    task = json.loads(sys.stdin.read())
    from vf.core import Collector
    from vf import spec as S
    import time
    t0 = time.time()
    col = Collector()
    mod = importlib.import_module('vf.checks.%s' % task['prop'].lower())
    try:
        mod.worker(task, col)
    except Exception:  # noqa -- harness failure: report, never a verdict
        col.inconclusive.append('worker crashed: ' + traceback.format_exc()[-1500:])
    res = col.result()
    res['wall_s'] = round(time.time() - t0, 1)
    res['task'] = {k: v for k, v in task.items() if k in ('shard', 'lo', 'hi', 'kind', 'mode')}
    sys.stdout.write('\n@@RESULT@@' + json.dumps(res, default=S._default) + '\n')
    sys.stdout.flush()


if __name__ == '__main__':
    main()
