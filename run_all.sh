#!/bin/bash
# run every check (or the listed ones) of one tier and print a one-line summary each:  ./run_all.sh quick [seed] ["01 03 ..."]
cd "$(dirname "$0")"
tier=${1:-quick}; seed=${2:-0}; ids=${3:-01 02 03 04 05 06 07 08 09 10 11 12 13 14 15 16 17 18 19 20}
for i in $ids; do
  s=$(date +%s)
  out=$(VERIF_SEED=$seed ./check C$i --tier $tier 2>&1); rc=$?
  e=$(date +%s)
  echo "C$i rc=$rc $((e-s))s  $(echo "$out" | grep -E "^C$i $tier" | head -1)"
  echo "$out" | grep -E "^(VIOLATION|INCONCLUSIVE|KNOWN-FINDING)" | head -8 | sed 's/^/    /'
done
