#!/bin/bash
# tools/demo_on_head.sh <seeded-id>: does the seeded change still break its demonstration on the current /repo HEAD?
sid=$1; dir=/tmp/ev/demo.$sid.$$
mkdir -p /tmp/ev
git -C /repo worktree add -q --detach $dir HEAD || exit 3
cd $dir
cp /verif/seeded/$sid/demo.py .
PYTHONPATH=$dir XDG_CACHE_HOME=$dir/.cache timeout 300 /venv/bin/python demo.py > /dev/null 2>&1; rc0=$?
git apply /verif/seeded/$sid/patch.diff || { echo "$sid: patch does not apply on HEAD"; cd /; git -C /repo worktree remove --force $dir; exit 3; }
PYTHONPATH=$dir XDG_CACHE_HOME=$dir/.cache timeout 300 /venv/bin/python demo.py > /tmp/ev/demo.$sid.log 2>&1; rc1=$?
echo "$sid on HEAD: demo without change rc=$rc0, with change rc=$rc1"
cd /; git -C /repo worktree remove --force $dir
