#!/venv/bin/python
"""tools/shrink.py PROP REPLAY.json [out.json]: greedy shrinking of a violating DSG spec (same symptom persists).
Run with PYTHONPATH=/repo:/verif and a private XDG_CACHE_HOME."""
import sys, json, copy, os
sys.path.insert(0, '/verif'); sys.path.insert(0, os.environ.get('VERIF_REPO', '/repo'))
from vf.core import Collector
from vf import spec as S

def runner(prop):
    from vf.checks import selwalk, decode, hist, c08, c11, c13, c16, c17, c20
    if prop in ('C02', 'C06'): return lambda sp, col: selwalk.check_case(prop, sp, col, 'shrink')
    if prop in ('C01', 'C03', 'C04', 'C07', 'C14'): return lambda sp, col: decode.check_case(prop, sp, col, 'shrink', cap=600)
    if prop in ('C05', 'C15'): return lambda sp, col: hist.check_case(prop, sp, col, 'shrink', 4, 12, ['shrink'])
    if prop == 'C08': return lambda sp, col: [c08.check_case(sp, col, 'shrink', ['shrink', r], 25) for r in range(4)]
    if prop == 'C11': return lambda sp, col: c11.check_case(sp, col, 'shrink')
    if prop == 'C13': return lambda sp, col: c13.graph_level(S.normalize(sp), col, 'shrink')
    if prop == 'C16': return lambda sp, col: c16.check_case(sp, col, 'shrink', ['shrink'])
    if prop == 'C17': return lambda sp, col: c17.check_case(sp, col, 'shrink', ['shrink'])
    raise SystemExit('no runner for ' + prop)

def symptoms(run, sp):
    col = Collector()
    try:
        run(sp, col)
    except Exception as e:
        return set()
    return {(v['symptom'], json.dumps(v.get('where', {}).get('exc'))) for v in col.violations}

def candidates(sp):
    sp = S.normalize(sp)
    used = set()
    for i in range(len(sp['sel'])):
        c = copy.deepcopy(sp); del c['sel'][i]
        c['constraints'] = [k for k in c['constraints'] if sp['sel'][i]['key'] not in k['choices']]
        yield c
    for i, ch in enumerate(sp['sel']):
        if len(ch['options']) > 1:
            for j in range(len(ch['options'])):
                c = copy.deepcopy(sp); del c['sel'][i]['options'][j]; yield c
    for key in ('incompat', 'constraints', 'edges', 'conn'):
        for i in range(len(sp[key])):
            c = copy.deepcopy(sp); del c[key][i]; yield c
    for k_i, k in enumerate(sp['conn']):
        for side in ('src', 'tgt'):
            if len(k[side]) > 1:
                for j in range(len(k[side])):
                    c = copy.deepcopy(sp); del c['conn'][k_i][side][j]
                    c['conn'][k_i]['exclude'] = [e for e in c['conn'][k_i].get('exclude', []) if all(x in S.conn_endpoints(c['conn'][k_i], 'src') + S.conn_endpoints(c['conn'][k_i], 'tgt') for x in e)]
                    yield c
            for j, e in enumerate(k[side]):
                if isinstance(e, dict) and len(e['members']) > 1:
                    for m in range(len(e['members'])):
                        c = copy.deepcopy(sp); del c['conn'][k_i][side][j]['members'][m]; yield c
        for j in range(len(k.get('exclude', []))):
            c = copy.deepcopy(sp); del c['conn'][k_i]['exclude'][j]; yield c
    # drop unreferenced nodes
    ref = set(sp['start'])
    for u, v in sp['edges']: ref.update((u, v))
    for ch in sp['sel']: ref.add(ch['origin']); ref.update(ch['options'])
    for p in sp['incompat']: ref.update(p)
    for k in sp['conn']:
        for side in ('src', 'tgt'):
            for e in k[side]:
                if isinstance(e, dict): ref.add(e['grp']); ref.update(e['members'])
                else: ref.add(e)
    for c_ in sp['constraints']: ref.update(c_['choices'])
    if any(n['id'] not in ref for n in sp['nodes']):
        c = copy.deepcopy(sp); c['nodes'] = [n for n in c['nodes'] if n['id'] in ref]; yield c

def valid(sp):
    try:
        S.validate(S.normalize(sp)); return True
    except Exception:
        return False

def main():
    prop, path = sys.argv[1], sys.argv[2]
    d = json.load(open(path))
    v = d['violation'] if 'violation' in d else d
    sp = S.normalize(v['spec']); sp.pop('features', None)
    target = v['symptom']
    run = runner(prop)
    base = symptoms(run, sp)
    assert any(s[0] == target for s in base), ('does not reproduce', base)
    changed = True
    while changed:
        changed = False
        for c in candidates(sp):
            if not valid(c): continue
            if any(s[0] == target for s in symptoms(run, c)):
                sp = c; changed = True; break
    sp.pop('features', None)
    out = {'tags': [prop], 'note': 'shrunk witness for symptom %s' % target, 'spec': sp}
    print(json.dumps(out))
    if len(sys.argv) > 3:
        json.dump(out, open(sys.argv[3], 'w'), indent=1)

main()
