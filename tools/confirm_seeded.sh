#!/bin/bash
# tools/confirm_seeded.sh <worktree> <seeded-id>: confirm a seeded change (tests pass with it, demo fails with it and passes without) and store it
wt=$1; sid=$2
dst=/verif/seeded/$sid; mkdir -p $dst
cd $wt || exit 1
git diff > $dst/patch.diff
cp demo.py $dst/demo.py
export PYTHONPATH=$wt XDG_CACHE_HOME=$wt/.cache PYTHONHASHSEED=0
timeout 300 /venv/bin/python demo.py > $dst/demo_with_change.log 2>&1; rc_with=$?
git apply -R $dst/patch.diff   # (not git stash: the stash is shared by all worktrees of one repository)
timeout 300 /venv/bin/python demo.py > $dst/demo_without_change.log 2>&1; rc_without=$?
git apply $dst/patch.diff
tests=$(timeout 1200 /venv/bin/python -m pytest -q -p no:cacheprovider --timeout=900 adsg_core/tests 2>&1 | grep -E "passed|failed" | tail -1)
rm -rf $wt/.cache
echo "{\"demo_exit_with_change\": $rc_with, \"demo_exit_without_change\": $rc_without, \"tests_with_change\": \"$tests\", \"patch_lines\": $(wc -l < $dst/patch.diff)}" > $dst/confirm.json
cat $dst/confirm.json
tail -3 $dst/demo_with_change.log | cut -c1-300
