#!/bin/bash
# tools/seeded_matrix.sh [tier] [seed] [id-regex]: run every seeded change (whose id matches the regex, default all)
# against the check of its own property (+ extra checks listed in seeded/<id>/also) and write seeded/<id>/caught.json
cd "$(dirname "$0")/.."
tier=${1:-quick}; seed=${2:-0}; only=${3:-.}
for d in seeded/*/; do
  sid=$(basename $d); own=${sid%%-*}
  echo "$sid" | grep -qE "$only" || continue
  [ -f $d/NEUTRALISED ] && { echo '{"note": "neutralised, see NEUTRALISED"}' > $d/caught.json; continue; }
  res="{"
  for chk in $own $(cat $d/also 2>/dev/null); do
    out=$(tools/try_seeded.sh $sid $chk $tier $seed 2>&1 | head -1)
    rc=$(echo "$out" | sed -n 's/.* rc=\([0-9]*\) .*/\1/p')
    res="$res\"$chk\": $( [ "$rc" = "1" ] && echo '"caught"' || echo "\"missed(rc=$rc)\"" ), "
    echo "$sid $chk rc=$rc"
  done
  echo "${res%, }}" > $d/caught.json
done
