#!/usr/bin/env python3
"""tools/write_meta.py: (re)write seeded/<id>/meta.json from the descriptions below + confirm.json + caught.json.

The descriptions are what the author of each change reported and what was confirmed by running the demonstration with
and without the change in a scratch worktree (tools/confirm_seeded.sh) and the checks against a scratch worktree with
the change applied (tools/try_seeded.sh / tools/seeded_matrix.sh).  Seeded changes are never committed to /repo."""
import json
import os

ROOT = os.path.dirname(os.path.dirname(os.path.abspath(__file__)))

META = {
    'C01-a': dict(
        breaks='C01', file='adsg_core/optimization/hierarchy/fast.py (_iter_neighborhood)',
        change='the lower neighbour (i-dist) is only tried when the upper one (i+dist) is out of range (if -> elif)',
        needs='fast encoder; a vector whose value for some selection variable is infeasible while the only feasible '
              'values have LOWER indices and a higher index still exists (e.g. only option A of three is connectable); '
              'decoding then raises "No more feasible graphs" instead of correcting the vector',
        strengthened=None),
    'C02-a': dict(
        breaks='C02', file='adsg_core/graph/traversal.py (get_derived_edges_for_node)',
        change='`continue` -> `break` when a derived target is a start node',
        needs='more than one start node, one of which is also derived by a node that is dropped when a choice is '
              'taken, and that dropped node derives further siblings; set iteration order decides which siblings '
              'survive (node hashes are id-based, so it differs per build): surplus unreachable nodes / a choice node '
              'left in the final instance',
        strengthened=None),
    'C03-a': dict(
        breaks='C03', file='adsg_core/optimization/graph_processor.py (_get_graph / choice loop)',
        change='the "previously used values" key passed to the next choice is rebuilt from the selection values only, '
               'dropping the values of the connection choices already decoded',
        needs='three or more connection (or DV) choices active together, decoded on one long-lived processor: the '
              'third choice is served from a cache entry of another vector, so the corrected vector no longer '
              'describes the instance',
        strengthened='input classes conn2 / conn3 (two and three independent connection choices) added to the decode '
                     'family'),
    'C04-a': dict(
        breaks='C04 (with fixed variables)', file='adsg_core/optimization/graph_processor.py (_update_comb_fixed_mask)',
        change='fixed selection variables are mapped to the analyzer by design-variable index instead of decision index',
        needs='a fixed selection variable whose position in the vector differs from the position of its choice among '
              'the selection choices (a forced/hidden choice comes first); the enumeration of the restricted problem '
              'then loses or duplicates rows',
        strengthened='C04 gained the fixed-variable pass (restricted enumeration == slice of the full one); C15 caught '
                     'it from the start'),
    'C05-a': dict(
        breaks='C05', file='adsg_core/optimization/graph_processor.py (connection-choice cache key)',
        change='the per-choice decode cache key no longer contains the values of previously decoded choices',
        needs='two or more connection choices and a history: two vectors that agree on one choice and differ on an '
              'earlier one, decoded on the same processor; the second decode returns the cached edges of the first',
        strengthened='conn2 / conn3 profiles added to the history checks (C05, C15)'),
    'C06-a': dict(
        breaks='C06', file='adsg_core/graph/incompatibility.py (get_confirmed_incompatibility_edges)',
        change='only the source end of an incompatibility edge is tested for being confirmed',
        needs='an incompatibility whose second-named node (by name order of the canonical edge) becomes confirmed '
              'through a shared derived node while the first is selected: the instance is reported feasible with both '
              'ends present; depends on which of the two nodes sorts first by name',
        strengthened=None),
    'C07-a': dict(
        breaks='C07', file='adsg_core/optimization/graph_processor.py (activeness of selection variables)',
        change='activeness of selection variables is looked up by design-variable index instead of decision index',
        needs='a forced selection choice (LINKED follower) ordered before a conditionally active one, so variable and '
              'decision indices are not aligned; an inactive variable is reported active (or vice versa)',
        strengthened=None),
    'C08-a': dict(
        breaks='C08', file='adsg_core/graph/adsg.py (DSG.__init__)',
        change='the dictionaries of stored DV / metric values are shared with the graph a copy was derived from',
        needs='a graph that already stores a value is copied / has a choice applied / is decoded, and the derived graph '
              'stores another value: the existing graph changes under the holder',
        strengthened=None),
    'C09-a': dict(
        breaks='C09', file='adsg_core/optimization/assign_enc/matrix.py (iter_n_sources_targets)',
        change='with a cold cache and an existence filter, only the tuples of that pattern are generated and then '
               'written to the cache as if complete',
        needs='several existence patterns, a COLD on-disk cache, and iter_matrices(existence=p) (or '
              'iter_n_sources_targets) as the first call; every later count / enumeration reads the poisoned cache',
        strengthened='C09 gained the entry-point order pass (cold cache -> one pattern first -> count and enumerate '
                     'everything with the same and a fresh generator)'),
    'C10-a': dict(
        breaks='C10', file='adsg_core/optimization/assign_enc/lazy/imputation/first.py (LazyFirstImputer cache key)',
        change='the "first valid matrix" cache of the first-imputer is no longer keyed by the existence pattern',
        needs='one lazy encoder queried for several existence patterns: the matrix cached for the first pattern is '
              'returned (invalid) for the others',
        strengthened=None),
    'C11-a': dict(
        breaks='C11', file='adsg_core/graph/adsg_nodes.py (ConnectionChoiceNode._get_assign_nodes)',
        change='the grouping-node degree refresh is done once over all potential connectors instead of per query over '
               'the connectors present',
        needs='connector grouping nodes with conditionally existing members, and several scenario instances alive at '
              'once: an older instance queried (iter_conn_edges / validate_conn_edges) after another one was created '
              'uses the degree of the wrong member set',
        strengthened='C11 gained the interleaved pass (all scenario instances are created first, then each is queried '
                     'again without any other call in between)'),
    'C12-a': dict(
        breaks='C12', file='adsg_core/optimization/assign_enc/matrix.py (MatrixGenSettings.get_cache_key)',
        change='the cache key uses the derived parallel-connection limit instead of the configured one',
        needs='two settings that differ only in max_conn_parallel (None vs explicit) with the same derived value for '
              'the all-exist pattern but different sets in another pattern, encoded through the same cache directory',
        strengthened=None),
    'C13-a': dict(
        breaks='C13', file='adsg_core/graph/choice_constraints.py (get_valid_idx_combinations)',
        change='vectorised ordering check compares adjacent columns only and treats an inactive column as a wildcard',
        needs='three constrained choices of which the middle one is inactive while the outer two are active together '
              '(a gap): decreasing outer indices are admitted',
        strengthened=None),
    'C14-a': dict(
        breaks='C14', file='adsg_core/optimization/hierarchy/fast.py (_iter_neighborhood)',
        change='same neighbourhood rewrite as C01-a with the early exit folded in',
        needs='fast encoder; infeasible value whose feasible alternatives are all at lower indices',
        strengthened=None),
    'C15-a': dict(
        breaks='C15', file='adsg_core/optimization/hierarchy/base.py (available-combinations mask)',
        change='the mask of fixed values is and-ed INTO the cached feasibility mask',
        needs='fix a variable, decode or enumerate (both decode modes), free it: the original problem is not restored',
        strengthened='C15 decodes with create=False as well as create=True while a variable is fixed'),
    'C16-a': dict(
        breaks='C16', file='adsg_core/graph/adsg_nodes.py (DesignVariableNode.correct_value)',
        change='the relative position within the bounds is computed from the value BEFORE it is clamped',
        needs='a continuous design-variable node with LINKED followers and an out-of-bounds value (set directly or '
              'through a raw vector): the node itself is clamped, its followers receive values outside their bounds',
        strengthened=None),
    'C17-a': dict(
        breaks='C17', file='adsg_core/optimization/evaluator.py (evaluate)',
        change='only returned metrics are stored and the outputs are read back from the stored values',
        needs='an instance evaluated twice, the second evaluator call returning fewer metrics: the outputs of the '
              'second call contain the stale values of the first instead of NaN',
        strengthened=None),
    'C18-a': dict(
        breaks='C18', file='adsg_core/graph/adsg.py (get_for_adjusted)',
        change='copies share the list of choice constraints with the original',
        needs='copy a graph, then constrain choices on one side: the other side gains the constraint too (equal hash, '
              'changed design variables)',
        strengthened=None),
    'C19-a': dict(
        breaks='C19', file='adsg_core/optimization/assign_enc/time_limiter.py (run_timeout)',
        change='after signalling the worker, the join is bounded by the time limit instead of waiting for the worker',
        needs='a worker that does not react to the asynchronous exception within the limit (long native call, or a '
              'function that swallows TimeoutError): run_timeout returns while the worker still executes',
        strengthened='call classes native_sleep / swallow_long (worker blocked well beyond the limit) added to C19'),
    'C20-a': dict(
        breaks='C20', file='adsg_core/graph/sup/dsg.py (SupDSG.resolve)',
        change='a mapping is only resolved if its choice is currently ACTIVE in the supplementary graph',
        needs='nested supplementary choices whose mappings are registered child-first: the child is skipped because it '
              'is not active yet and never revisited ("Resolved SupDSG is not final")',
        strengthened='C20 registers mappings in shuffled order (60 % of the cases)'),
    # ---- second round (authors were told not to touch the first-round code) ----
    'C02-b': dict(
        breaks='C02', file='adsg_core/graph/traversal.py (get_confirmed_edges_for_node, walked-hit propagation)',
        change='`_walked_hit.setdefault(node, hit_nodes)` drops the hits of later child branches',
        needs='a "double diamond" below one option, a choice below the second re-joined branch, another option entering '
              'at the intermediate node, and the option with the double diamond traversed first (shared cache)',
        strengthened='NEUTRALISED by FX-32 (get_confirmed_edges_for_node now caches only the requested node): on the '
                     'current /repo HEAD the change no longer breaks its own demonstration (tools/demo_on_head.sh), so '
                     'it is kept for the record only'),
    'C03-b': dict(
        breaks='C03', file='adsg_core/optimization/hierarchy/complete.py (_find_correct_opt_idx)',
        change='`i_comb_possible = ic_set` aliases a cached set that the following `&=` then shrinks in place',
        needs='complete encoder; first scenario is a merged multi-choice scenario with invalid raw combinations '
              '(ordering / permutation constraint); nothing masked yet; a history in which a vector with an invalid '
              'first-scenario part is decoded before another vector sharing the corrected combination: canonical '
              'vectors stop being fixed points or raise "Could not find unique option-index combination"',
        strengthened='C03 gained the late pass: after the sweep every corrected vector is decoded again, in shuffled '
                     'order, and must still be a fixed point with the same architecture (C01, C04, C05, C13 caught it '
                     'from the start)'),
    'C06-b': dict(
        breaks='C06', file='adsg_core/graph/incompatibility.py (get_mod_nodes_remove_incompatibilities)',
        change='before raising, only the confirmed DERIVING nodes are taken out of the removal set, not all confirmed nodes',
        needs='a necessary conflict through a still-open choice whose origin D is confirmed, the selected node hanging '
              'under D, and a particular order of choices at graph level: the instance is reported feasible and final '
              'without the selected option',
        strengthened=None),
    'C07-b': dict(
        breaks='C07', file='adsg_core/optimization/graph_processor.py (get_all_discrete_x)',
        change='active continuous variables get their lower bound as placeholder in an int array whose inactive '
               'sentinel is -1',
        needs='a continuous design-variable node with lower bound in (-2, -1]: the enumeration reports it inactive, '
              'both decode paths active',
        strengthened='continuous DV bounds now drawn from a wider set incl. [-1, 1], [-1.5, 0.5], [-3, -1], [0.5, 2]'),
    'C08-b': dict(
        breaks='C08', file='adsg_core/graph/traversal.py (get_unconnected_connectors)',
        change='the grouping-node degree is refreshed when the loop reaches the grouping node instead of before the '
               'group is first judged',
        needs='a grouping node with a conditional member, sibling graphs with different member sets alive together, a '
              'degree-sensitive feasibility verdict (connection choice with nothing on the other side), and the OTHER '
              'graph queried last: `feasible` of an existing graph flips; a full observation in a fixed order repairs '
              'the shared state before the deciding query',
        strengthened='Registry.reobserve: pairwise probe (query Y.feasible, then X.feasible, for every ordered pair), '
                     'rotating observation order, a known raw-attribute diff no longer ends the case; generator class '
                     '"whole side under conditional nodes"; corpus/c08_group_conditional_member_no_target.json'),
    'C10-b': dict(
        breaks='C10', file='adsg_core/optimization/assign_enc/enumerating/recursive.py (_encode_matrix)',
        change='the inactive-key prefix is cut at the FIRST zero digit of the last index instead of the last one',
        needs='a pattern whose number of matrices minus one has two zero digits separated by a non-zero digit in base '
              'n_divide (11 matrices for base 2): distinct vectors collapse onto one corrected vector',
        strengthened=None),
    'C11-b': dict(
        breaks='C11', file='adsg_core/optimization/assign_enc/matrix.py (NodeExistence.get_effective_settings)',
        change='excluded pairs are re-indexed on the source side only',
        needs='an exclusion edge (S, T_k), an earlier target that is absent in some scenario: the exclusion lands on '
              'the wrong target (or IndexError)',
        strengthened=None),
    'C13-b': dict(
        breaks='C13', file='adsg_core/optimization/hierarchy/complete.py (_reduced_selection_choice_scenarios)',
        change='"all constrained choices permanent" is computed from the first constrained choice only',
        needs='UNORDERED_NOREPL over a permanent first choice and a conditionally active later one, complete encoder: '
              'equal indices are offered / NoOptionError / duplicate architectures',
        strengthened=None),
    'C16-b': dict(
        breaks='C16', file='adsg_core/graph/adsg.py (set_des_var_value) + graph_processor.py (get_graph)',
        change='set_des_var_value returns "the value set" but the variable was reused for the linked followers; '
               'get_graph reports that return value',
        needs='LINKED continuous design-variable nodes with different bounds, decoded with create=True: the corrected '
              'vector reports the follower\'s value for the leader',
        strengthened=None),
    'C18-b': dict(
        breaks='C18', file='adsg_core/graph/adsg_basic.py (_choice_sort_key)',
        change='the tie-breaker of choices with equal ids uses the option nodes twice instead of origin > options',
        needs='three or more selection choices with the same decision id and identically NAMED option nodes that '
              'differ only in their originating node, all active together: their order (and so the design vector) '
              'follows memory addresses / hash seed',
        strengthened='generator class "replica" (same sub-architecture instantiated k times; spec nodes may carry a '
                     'repeated display label) in C18 and in the history checks'),
    'C01-b': dict(
        breaks='C01', file='adsg_core/optimization/graph_processor.py (_get_des_vars)',
        change='the mask of infeasible existence patterns is rebound per connection choice instead of accumulated',
        needs='two or more connection choices, an infeasible existence pattern on a non-last one that the '
              'selection-level feasibility check does not see; complete encoder: valid vectors raise "Infeasible graph '
              'specified!"',
        strengthened=None),
    'C04-b': dict(
        breaks='C04', file='adsg_core/optimization/graph_processor.py (get_graph, per-choice graph cache key)',
        change='the cache key of the graph after a connection choice no longer contains the earlier choices\' values',
        needs='two connection choices active together; rows that differ only in the earlier one decode to the same '
              'architecture on a processor that has served another row (counts and vectors stay right)',
        strengthened=None),
    'C05-b': dict(
        breaks='C05', file='adsg_core/optimization/hierarchy/complete.py (_find_correct_opt_idx)',
        change='same aliasing of the cached combination set as C03-b (found independently)',
        needs='see C03-b; shows as history-dependent decodes / wrong decodes under a fix',
        strengthened=None),
    'C09-b': dict(
        breaks='C09', file='adsg_core/optimization/assign_enc/matrix.py (MatrixGenSettings.get_cache_key)',
        change='the cache key is memoised on the (mutable) settings object',
        needs='one settings object used by a generator, edited in place (exclusions removed, parallel limit, '
              'repeatability) and used for a new generator: enumeration and count come from the cache files of the '
              'earlier state while validate_matrix is computed fresh',
        strengthened='C09 gained the in-place edit pass (prime, edit the object, new generator, compare with the brute '
                     'force of the edited settings)'),
    'C12-b': dict(
        breaks='C12', file='adsg_core/optimization/assign_enc/matrix.py (iter_n_sources_targets)',
        change='same change as C09-a (found independently for the cache property)',
        needs='>= 2 existence patterns, cold matrix cache, a scenario-filtered public query first, then selection',
        strengthened='C12 gained the filtered-first scenario on its own cache directory (filtered iter_matrices, then '
                     'selection through the caches, then the cached aggregate matrix vs brute force)'),
    'C14-b': dict(
        breaks='C14', file='adsg_core/optimization/hierarchy/fast.py (_get_selection_choice_is_forced)',
        change='the indices of linked choices are no longer sorted before all but the first are marked forced',
        needs='fast encoder; LINKED choices on different hierarchy levels where the deeper one sorts first by id: the '
              'permanent choice becomes forced to option 0 and all other linked options are unreachable',
        strengthened='KF-CON-LINKED-FAST used to swallow it (same symptom, same flags): the matcher now requires that '
                     'every missing architecture has a PARTIALLY active link group (where.linked_partial_only); the '
                     'structured constraint placements of C13 are also fed to C14/C01/C03'),
    'C15-b': dict(
        breaks='C15', file='adsg_core/optimization/graph_processor.py (_update_comb_fixed_mask)',
        change='same index mix-up as C04-a (found independently)',
        needs='a forced selection choice ordered before the fixed one',
        strengthened=None),
    'C17-b': dict(
        breaks='C17', file='adsg_core/optimization/graph_processor.py (_get_metrics)',
        change='the "declared NONE" guard is applied to the objective role only',
        needs='a metric declared MetricType.NONE that has a direction AND a reference value: it becomes a constraint',
        strengthened=None),
    'C19-b': dict(
        breaks='C19', file='adsg_core/optimization/assign_enc/matrix.py (iter_n_sources_targets)',
        change='the on-disk tuple cache is written in a `finally`, i.e. also when the generator is interrupted',
        needs='a time-limited count_all_matrices that times out on a cold cache: the partial tuple list is stored as '
              'if complete and every later call under-counts',
        strengthened='C19 gained the library workload class (count_all_matrices under a tiny limit on a cold cache, '
                     'then the same queries compared with an undisturbed run)'),
    'C20-b': dict(
        breaks='C20', file='adsg_core/graph/sup/dsg.py (SupExistenceMapping.resolve)',
        change='existing source nodes are collected by str(node), looked up by str_context()',
        needs='an existence mapping keyed on a design-variable or metric node of the source graph',
        strengthened='C20 sources now include design-variable / metric nodes and existence mappings are keyed on them'),
    # ---- third round ----
    'C02-c': dict(
        breaks='C02', file='adsg_core/graph/adsg.py (DSG.initialize_choices)',
        change='nodes incompatible with initially confirmed nodes are removed IN PLACE from the graph being initialised',
        needs='one builder object used for a second set_start_nodes call after a first call that pruned an '
              'incompatible node and removed nothing unreachable: the builder\'s own graph has lost nodes',
        strengthened=None),
    'C03-c': dict(
        breaks='C03', file='adsg_core/optimization/hierarchy/complete.py (_get_nodes_existence)',
        change='the `removed_by` default is hoisted out of the per-node loop and leaks from the previous node',
        needs='complete encoder; a design-variable node that is itself an option of a selection choice, preceded (in '
              'name order) by a conditional design-variable node that an incompatibility constraint removes, and a '
              'vector taking the remover option: the node is in the instance without value while its variable is '
              'reported inactive',
        strengthened='C03: a design-variable node present in the instance must have an active variable (C01/C16 '
                     'already required a value); generator class "design-variable node as option + incompatibility '
                     'with a design-variable node"; corpus/dv_option_after_removed_dv.json'),
    'C06-c': dict(
        breaks='C06', file='adsg_core/graph/incompatibility.py (get_incompatibility_deriving_nodes)',
        change='`continue` -> `break` at a selection-choice in-edge',
        needs='an incompatible node (or necessary deriver) that is an option shared between branches with a choice '
              'in-edge FOLLOWED by another deriving in-edge, and the incompatible partner selected first',
        strengthened=None),
    'C07-c': dict(
        breaks='C07', file='adsg_core/optimization/assign_enc/lazy/imputation/delta.py (LazyDeltaImputer._impute)',
        change='the imputer returns the trial vector it fed to the decoder instead of the canonical one (with -1 markers)',
        needs='a lazy connection encoder with conditionally active variables (rarely selected automatically), a raw '
              'vector that needs repair, and a repaired design with inactive variables',
        strengthened='C07/C03 run half of the connection cases with selection reduced to ONE registered encoder '
                     '(rotating over the eager, lazy and enumerating families: "every registered connection encoder"); '
                     'KF-EAGER-ACT no longer matches lazy encoders (C10 caught it from the start)'),
    'C08-c': dict(
        breaks='C08', file='adsg_core/graph/adsg.py (get_for_adjusted)',
        change='same sharing of the choice-constraint list as C18-a (found independently)',
        needs='a graph that already has a constraint is copied / derived, then constrain_choices on either side',
        strengthened=None),
    'C09-c': dict(
        breaks='C09 (graph-level validity)', file='adsg_core/graph/adsg_nodes.py (validate_conn_edges)',
        change='"vectorised" matrix construction `matrix[i, j] += 1` with repeated index pairs counts each pair once',
        needs='an edge list with the same source-target pair more than once passed to validate_conn_edges',
        strengthened='none needed: C11 validates sets with parallel edges at graph level and catches it; C09 itself is '
                     'the matrix-level check (validate_matrix) and is not affected'),
    'C11-c': dict(
        breaks='C11', file='adsg_core/graph/adsg_nodes.py (ConnectorDegreeGroupingNode.get_combined_deg)',
        change='bounded members that come AFTER an open-ended member are not counted in the group\'s minimum',
        needs='a grouping node with an open-ended member inserted before a bounded member with non-zero minimum',
        strengthened='group members may be open-ended in the C11/C08 classes (which also surfaced FX-35 and '
                     'KF-GRP-OPEN); KF-GRP-REP used to swallow it and now only matches processor-level extra sets'),
    'C12-c': dict(
        breaks='C12', file='adsg_core/optimization/assign_enc/selector.py (stage 3_all)',
        change='eager candidates of the late stage are built with the LAZY imputer',
        needs='settings with more than 1000 connection sets whose lazy candidates all have poor scores (derangements '
              'of 7): the selected eager coding crashes on the first vector that needs imputation',
        strengthened='C12 gained the large-settings class (derangements of 7, 5-to-5 assignment, permutations of 6; '
                     'oracle: the library\'s own validate_matrix, range, fixed point, no exception)'),
    'C14-c': dict(
        breaks='C14 (with a fixed variable: C15)', file='adsg_core/optimization/graph_processor.py (get_graph)',
        change='the re-decode after an infeasible connection scenario passes the FULL vector (fixed values spliced in)',
        needs='fast encoder, a fixed selection variable, a vector landing in an infeasible connection scenario not yet '
              'excluded: ValueError "Incorrect number of design variable values"',
        strengthened='none: by its author\'s own account at the edge of C14 (needs fix_des_var); C15 and C05 catch it'),
    'C16-c': dict(
        breaks='C16', file='adsg_core/optimization/dv_output_defs.py (DesVar.__eq__/__hash__)',
        change='design variables compare and hash by NAME',
        needs='two design-variable nodes with the same name (one "size" per option subtree): values are read from and '
              'written to the wrong slot',
        strengthened='design-variable nodes may carry a repeated display name (label) in the C16 class'),
    'C17-c': dict(
        breaks='C17', file='adsg_core/graph/traversal.py (traverse_until_choice_nodes)',
        change='the confirmed-node walk follows every edge type except INCOMPATIBILITY (so also EXCLUDES)',
        needs='a connection choice with an exclusion from a permanent source to a conditional target that has metric '
              'nodes below it: conditional metrics count as permanent',
        strengthened='C17 class with metrics below (conditional) connector nodes and exclusion edges'),
    'C18-c': dict(
        breaks='C18', file='adsg_core/graph/adsg.py (DSG.__hash__)',
        change='hash over frozenset(g.nodes) / frozenset(g.edges()): parallel edges collapse',
        needs='an edit that adds or removes an edge parallel to an existing one',
        strengthened=None),
    'C19-c': dict(
        breaks='C19', file='adsg_core/optimization/assign_enc/time_limiter.py (_inner_run)',
        change='`raise TimeoutError` moved inside `if thread.is_alive():`',
        needs='the limit expires while the worker is already gone (function ending within ~1 ms of the limit, or '
              'killing its own thread): run_timeout returns None',
        strengthened=None),
    'C20-c': dict(
        breaks='C20', file='adsg_core/graph/sup/dsg.py (SupSelChoiceOptionMapping.initialize)',
        change='mapping targets are re-keyed by str_context(), which ignores SupNode.ref',
        needs='supplementary option nodes with the same name and different ref',
        strengthened='supplementary options may share their name and differ in ref'),
    # ---- fourth round ----
    'C01-d': dict(breaks='C01', file='adsg_core/optimization/hierarchy/complete.py (_find_correct_opt_idx)',
                  change='same aliasing of the cached combination set as C03-b / C05-b (found independently a third time)',
                  needs='see C03-b', strengthened=None),
    'C03-d': dict(breaks='C03', file='adsg_core/graph/adsg.py (DSG.__init__)',
                  change='the dictionary of stored design-variable values is no longer copied (explicit None check)',
                  needs='two or more decodes on one processor and an earlier instance (or the base graph) inspected '
                        'after a later decode', strengthened=None),
    'C04-d': dict(breaks='C04', file='adsg_core/optimization/graph_processor.py (_get_des_vars)',
                  change='same rebinding of the infeasible-existence mask as C01-b (found independently)',
                  needs='two connection choices, infeasible pattern on a non-last one: extra rows that cannot be decoded',
                  strengthened=None),
    'C05-d': dict(breaks='C05', file='adsg_core/graph/adsg.py (DSG.__init__) + graph_processor.py (get_graph)',
                  change='two cooperating sites: value dictionaries are not copied, and the final instance copy is made '
                         'AFTER the design-variable values were stored on the cached graph',
                  needs='design-variable nodes, a reused cached graph, two decodes and the earlier instance inspected '
                        'again; every decode equals a fresh processor\'s at return time',
                  strengthened='C05 keeps every returned instance with a snapshot of what it held when it was handed out '
                               'and re-checks all of them after every later decode / mutation (C08 caught it from the start)'),
    'C07-d': dict(breaks='C07', file='adsg_core/optimization/assign_enc/enumerating/recursive.py (_encode_matrix)',
                  change='the stored last design vector no longer carries the -1 markers that the overflow path returns',
                  needs='EnumRecursiveEncoder (last selection stage or only candidate), a matrix count whose last index '
                        'has a zero digit, and a raw vector beyond the last index',
                  strengthened='KF-EAGER-ACT used to swallow it (the enumerating encoders are lazy encoders): the matcher '
                               'now names the eager encoder classes; the forced single-encoder mode provides the encoder'),
    'C09-d': dict(breaks='C09', file='adsg_core/optimization/assign_enc/matrix.py (NodeExistence.get_effective_settings)',
                  change='the effective settings get the raw max_conn_parallel (None) instead of the limit computed '
                         'before open-ended conversion',
                  needs='consecutive degree ranges reaching 3 or more on repeatable pairs (typically in reduced existence '
                        'patterns): matrices with a cell >= 3 vanish from enumeration, validation and count alike',
                  strengthened='C09 class with degree ranges 0..3, 1..3, 0..4 and existence patterns'),
    'C10-d': dict(breaks='C10', file='adsg_core/optimization/assign_enc/lazy/encodings/conn_idx.py',
                  change='the by-target branch reads the SOURCE override map for targets',
                  needs='a by-target lazy connection-index encoder and an existence pattern with a source-side override',
                  strengthened=None),
    'C11-d': dict(breaks='C11', file='adsg_core/optimization/assign_enc/matrix.py (MatrixGenSettings.get_cache_key)',
                  change='the exclusion part of the cache key formats the source index twice (target index lost)',
                  needs='two design spaces with identical connectors whose exclusion edges leave the same source for '
                        'different targets, processed through the same cache directory',
                  strengthened='C11 checks a sibling of every case with the exclusion edge moved to another target right '
                               'after it; C12\'s near-pairs include same-source / other-target exclusions'),
    'C12-d': dict(breaks='C12', file='adsg_core/optimization/assign_enc/selector.py (initialize_numba)',
                  change='the warm-up flag that excludes pattern encoders is reset on the class, not on the instance',
                  needs='the FIRST selector of a process (the one that performs the numba warm-up) selecting for '
                        'settings that a pattern encoder matches: its result (cached on disk) differs from what every '
                        'later selector computes',
                  strengthened='C12 first-selection-of-process probe (first selection through the cache, then two fresh '
                               'selections; judged only when those agree on the pattern stage) and same-process repeats'),
    'C13-d': dict(breaks='C13', file='adsg_core/optimization/hierarchy/fast.py (_get_selection_choice_is_forced)',
                  change='same dropped sort as C14-b (found independently)', needs='see C14-b',
                  strengthened='the state probe linked_forced_is_first (the first choice of a LINKED group is never the '
                               'forced one) now decides whether KF-CON-LINKED-FAST may match'),
    'C15-d': dict(breaks='C15', file='adsg_core/optimization/graph_processor.py (_get_all_des_var_values)',
                  change='fixed values are spliced in with list.insert in the order in which they were fixed',
                  needs='two variables fixed, the higher index first, and a free variable behind it',
                  strengthened='C15 law for two simultaneously fixed variables in both fixing orders'),
    'C16-d': dict(breaks='C16', file='adsg_core/graph/adsg.py (DSG.__init__)',
                  change='the design-variable value dictionary is not copied (`x or {}`)',
                  needs='a base design space graph that already stores a value before the processor is built, then two '
                        'decodes and the earlier instance / the base graph inspected again',
                  strengthened='C16 presets a nominal value on the base graph in half of the cases and re-checks earlier '
                               'instances and the base graph after every decode'),
    'C17-d': dict(breaks='C17', file='adsg_core/graph/adsg.py + adsg_basic.py (get_confirmed_graph cached per object)',
                  change='the confirmed graph is cached on the DSG object and only reset by add_selection_choice',
                  needs='a graph that was classified once and then extended in place (add_edge with a new metric) and '
                        'initialised again',
                  strengthened='C17 incremental-history pass (classify, extend the same object, classify again vs a '
                               'graph built in one go)'),
    'C20-d': dict(breaks='C20', file='adsg_core/graph/sup/dsg.py (SupSelChoiceOptionMapping.resolve memo)',
                  change='the resolved option is memoised per set of existing source node names',
                  needs='option nodes of the mapped source choice that exist in every architecture through another '
                        'parent, and two sibling architectures resolved through the same mapping object',
                  strengthened=None),
    # ---- fifth round ----
    'C02-e': dict(breaks='C02', file='adsg_core/graph/adsg_basic.py (_get_unreachable_nodes)',
                  change='the reachability search follows every edge type (successors()), so incompatibility edges count as derivations',
                  needs='an underivable derivation loop (not removable as floating nodes) with an incompatibility constraint '
                        'to a derivable node: the loop and what hangs below it stay in every instance',
                  strengthened='the "unreachable part" class may carry an incompatibility constraint into the reachable graph'),
    'C06-e': dict(breaks='C06', file='adsg_core/graph/adsg.py (add_incompatibility_constraint)',
                  change='nodes that are not in the graph yet are dropped from a new constraint',
                  needs='constraints declared before the edges / choices that introduce their nodes', strengthened=None),
    'C08-e': dict(breaks='C08', file='adsg_core/graph/influence_matrix.py (apply_selection_choice)',
                  change='early return for a choice without options BEFORE the defensive copy of the status array',
                  needs='a selection choice that lost all its options (PERMUTATION over more choices than options) '
                        'resolved on a copy that still shares its status array with the original',
                  strengthened='C08 constrain-on-copy scenarios: every constraint type x 2..3 choices x 2..3 options, '
                               'original and an earlier copy re-observed'),
    'C10-e': dict(breaks='C10', file='adsg_core/optimization/assign_enc/patterns/patterns.py (AssigningPatternEncoder._correct_vector)',
                  change='the list of entries that can still be incremented is computed once, outside the loop',
                  needs='assigning-pattern settings with source minimum >= 2: "Pattern encoder should never impute"',
                  strengthened='NOT CAUGHT, and left so: the failure is exactly the symptom of the open finding '
                               'KF-PATTERN-ENC (pattern encoders accept settings they then cannot decode), so the matcher '
                               'attributes it to that finding; telling a new pattern-encoder failure from the known ones '
                               'would need a specification of which settings each pattern encoder is meant to support, '
                               'which the library does not give'),
    'C13-e': dict(breaks='C13 (linked design-variable nodes)', file='adsg_core/graph/adsg_nodes.py (correct_value)',
                  change='same as C16-a: relative position computed before clamping (found independently)',
                  needs='an out-of-bounds write to a LINKED continuous design variable',
                  strengthened='C13\'s linked-DV part writes out-of-bounds values too (C16 caught it from the start)'),
    'C14-e': dict(breaks='C14', file='adsg_core/optimization/hierarchy/fast.py (_get_n_combinations)',
                  change='the upper bound of combinations is multiplied as int64 (dtype=float removed)',
                  needs='a design space of 2^63 or more combinations (63+ binary choices): negative / zero bound, the '
                        'fast encoder refuses a feasible graph',
                  strengthened='C14 huge-space cases (62/63/64/70 binary, 41 ternary choices; fast encoder only)'),
    'C18-e': dict(breaks='C18', file='adsg_core/graph/adsg.py (get_option_nodes)',
                  change='options are collected in a set before sorting; ties in (decision id, option id) follow hash order',
                  needs='a node that is an option of two choices at different positions (two options of the second '
                        'choice then carry the same option number), compared across processes / rebuilds',
                  strengthened='C18 option-tie class'),
    'C19-e': dict(breaks='C19', file='adsg_core/optimization/assign_enc/matrix.py (NodeExistence.*_exists_mask)',
                  change='the memoised mask is stored on the shared pattern object before it is filled',
                  needs='the time limit expiring inside the few microseconds of the fill loop; the half-filled mask then '
                        'answers every later call',
                  strengthened='C19 slows the statements of memoising accessors through sys.monitoring so that the '
                               'limit lands inside them, then compares with an undisturbed equal object'),
    # ---- sixth round ----
    'C01-f': dict(breaks='C01 (through the on-disk matrix cache)', file='adsg_core/optimization/assign_enc/matrix.py (MatrixGenSettings.get_cache_key)',
                  change='the excluded pairs enter the cache key as node labels ("src,tgt" of the Node reprs, which only show '
                         'degrees) instead of as index pairs',
                  needs='two connection problems in one cache directory that differ only in WHICH pair is excluded, with '
                        'equal degrees on the nodes involved: the second one decodes excluded connections',
                  strengthened='C01/C04 sibling pass: after a third of the connection cases, the same graph with a '
                               'look-alike connector and then with the exclusion moved to it (or a repeatability flag '
                               'flipped) is decoded in the same process and cache directory; C12 (cache-key '
                               'near-pairs) caught it from the start'),
    'C03-f': dict(breaks='C03', file='adsg_core/optimization/assign_enc/lazy/imputation/delta.py (LazyDeltaImputer)',
                  change='the delta imputer returns the vector it tried, not the vector the decoder corrected it to',
                  needs='a connection choice handled by a lazy encoder with delta imputation (no pattern match, many '
                        'matrices) and a vector that needs imputation',
                  strengthened=None),
    'C04-f': dict(breaks='C04 (through the on-disk matrix cache)', file='adsg_core/optimization/assign_enc/matrix.py (MatrixGenSettings.get_cache_key)',
                  change='source nodes enter the cache key by str() (degrees only) instead of repr() (degrees and repeatability)',
                  needs='two problems in one cache directory that differ only in whether a source accepts parallel edges',
                  strengthened='see C01-f (sibling pass); C12 caught it from the start'),
    'C05-f': dict(breaks='C05', file='adsg_core/optimization/hierarchy/complete.py (fixed-value combination mask)',
                  change='the combination set of two simultaneously fixed choices is intersected IN PLACE, which edits the '
                         'memoised set of an iteration spec',
                  needs='two selection variables fixed at the same time on the COMPLETE encoder, then one freed again: '
                        'decodes differ from a fresh processor with the same fixed values',
                  strengthened=None),
    'C07-f': dict(breaks='C07', file='adsg_core/optimization/assign_enc/enumerating/recursive.py (EnumRecursiveEncoder._decode)',
                  change='an out-of-range vector is corrected to the recomputed base-n digits of the last matrix index, '
                         'without the inactive-variable marking of the stored last vector',
                  needs='the recursive enumerating encoder (never auto-selected for small problems) and a vector beyond the '
                        'last matrix whose last valid design has inactive variables',
                  strengthened=None),
    'C09-f': dict(breaks='C09', file='adsg_core/optimization/assign_enc/matrix.py (MatrixGenSettings.get_max_conn_parallel)',
                  change='the scan for the largest finite degree stops at the first open-ended node of a side',
                  needs='a repeated-allowed open-ended connector listed BEFORE a connector with a finite degree above 2',
                  strengthened=None),
    'C11-f': dict(breaks='C11', file='adsg_core/graph/adsg_nodes.py (ConnectionChoiceNode existence patterns)',
                  change='a new existence pattern is numbered by the scenario index instead of by its position in the '
                         'pattern list',
                  needs='two existence scenarios with the same connector-existence pattern followed by a different one '
                        '(e.g. a grouping connector with the same member count under two options)',
                  strengthened=None),
    'C12-f': dict(breaks='C12', file='adsg_core/optimization/assign_enc/lazy_encoding.py (LazyEncoder.set_settings)',
                  change='a one-valued design variable is reported with ValueError instead of RuntimeError, which the '
                         'selector does not treat as "candidate rejects these settings"',
                  needs='settings a pattern / lazy candidate recognises but can only code with a one-valued variable: one '
                        'open-ended node against a node that needs exactly 1 and nodes that take 0..1; selection not cached',
                  strengthened='C12 family pass: a deterministic family of nearly degenerate settings (one open-ended node '
                               'against 2-3 almost pinned ones, both orientations) selected with a cold cache'),
    'C15-f': dict(breaks='C15', file='adsg_core/optimization/graph_processor.py (fix_des_var)',
                  change='the previous fixed value is removed before the new value is validated',
                  needs='an out-of-range re-fix of a variable that is ALREADY fixed: the rejection leaves it un-fixed',
                  strengthened='C15 rejections are repeated on an already-fixed variable (fixed values and listed '
                               'variables must survive)'),
    'C16-f': dict(breaks='C16', file='adsg_core/optimization/graph_processor.py (all_des_var_idx_map)',
                  change='the memoised index map is built from the currently free variables instead of all variables',
                  needs='a variable fixed on a fresh processor BEFORE the map is first used (before the first decode)',
                  strengthened='C16 fixes one selection variable (to a value some architecture takes) on a third of the '
                               'fresh processors before anything is decoded; C15 caught it from the start'),
    'C17-f': dict(breaks='C17', file='adsg_core/optimization/graph_processor.py (_categorize_metrics)',
                  change='the ambiguity check is skipped whenever the metric node states any type, also OBJ_OR_CON',
                  needs='a permanent metric with direction and reference declared type_=MetricType.OBJ_OR_CON: becomes an '
                        'objective silently instead of being rejected as ambiguous',
                  strengthened='C17 generator declares OBJ_OR_CON on a fifth of the undeclared metrics (same expected '
                               'roles as undeclared)'),
    'C20-f': dict(breaks='C20', file='adsg_core/graph/sup/dsg.py (SupDSG.initialize_choices)',
                  change='duplicates are detected per (choice, mapping object) pair, so two different mappings of the same '
                         'supplementary choice pass',
                  needs='a supplementary choice mapped twice with different mapping objects',
                  strengthened=None),
    # ---- seventh round ----
    'C02-g': dict(breaks='C02', file='adsg_core/graph/incompatibility.py (get_confirmed_incompatibility_edges)',
                  change='same edit as C14-g, found independently: only the source node of an incompatibility edge is '
                         'tested for being confirmed',
                  needs='see C14-g; at graph level: the incompatible option taken before the choice whose every option '
                        'derives the other node, and the node name sorting before the option name',
                  strengthened='see C14-g (necessary-conflict class)'),
    'C06-g': dict(breaks='C06', file='adsg_core/graph/adsg.py (DSG.initialize_choices)',
                  change='on an unresolvable incompatibility at initialisation the resolvable part is removed anyway '
                         '(as the apply path does) but no marker edge is re-added',
                  needs='a design space that is infeasible from the start: a start / permanent node incompatible with a '
                        'node every option of an initially active choice derives; the graph is then reported feasible',
                  strengthened=None),
    'C08-g': dict(breaks='C08', file='adsg_core/graph/adsg_nodes.py (ConnectionChoiceNode._get_assign_nodes)',
                  change='grouping nodes are refreshed in a loop over zip(src, tgt), which stops at the shorter side',
                  needs='unequal numbers of sources and targets with a grouping node (conditional member) beyond the '
                        'shorter side, another graph with other members constructed, and the old graph asked for its '
                        'connection sets BEFORE anything else (feasible refreshes every grouping node)',
                  strengthened='C08 alternates the order of its questions between quiescent points (connection sets '
                               'first / feasible first) and probes connection sets pairwise'),
    'C10-g': dict(breaks='C10 (listing clause)', file='adsg_core/optimization/assign_enc/patterns/patterns.py (PartitioningPatternEncoder._do_get_all_design_vectors)',
                  change='"every source has at least n_min targets" became "at least one"',
                  needs='partitioning settings with a source minimum >= 2; only get_all_design_vectors shows it',
                  strengthened='C10 classic-pattern family (deterministic: partitioning / assigning / combining x minimum '
                               '0..2 x 2..4 nodes x both orientations, pattern encoders only); KF-PATTERN-ENC no longer '
                               'matches listing symptoms (never seen without a decode failure on the unchanged tree)'),
    'C13-g': dict(breaks='C13', file='adsg_core/graph/adsg.py (DSG.is_constrained_choice)',
                  change='return None inside the loop: only the first constraint is looked at',
                  needs='two or more constraints and nodes in a later one; graph-level API / fast encoder / linked DVs',
                  strengthened=None),
    'C14-g': dict(breaks='C14', file='adsg_core/graph/incompatibility.py (get_confirmed_incompatibility_edges)',
                  change='only the source node of an incompatibility edge is tested for being confirmed',
                  needs='an option incompatible with a node that every option of another, later-decided choice derives, '
                        'and the node name sorting before the option name (orientation of the re-added marker edge); '
                        'fast encoder',
                  strengthened='generator class "necessary conflict" (permanent choices, a node all options of one choice '
                               'derive, incompatibility to an option of another choice, both name and decision orders) '
                               'in the decode and selection-walk families; C06 then catches it too'),
    'C18-g': dict(breaks='C18', file='adsg_core/graph/adsg_nodes.py (ConnectorDegreeGroupingNode.__str__)',
                  change='the string (and so the fingerprint) of a grouping node includes its aggregated degree, which is '
                         'rewritten on the shared node object whenever another graph is built',
                  needs='a grouping node with a conditional member; fingerprint / pickle taken before and after decoding '
                        'a reduced instance',
                  strengthened='C18 history-stability pass (fingerprint and earlier/later pickles vs the graph and a fresh '
                               'build after a random walk and decodes) and a grouping-connector profile'),
    'C19-g': dict(breaks='C19', file='adsg_core/optimization/assign_enc/matrix.py (_write_to_cache)',
                  change='the temporary cache file is moved into place in the finally block, also after an interrupted dump',
                  needs='the limit expiring while the result is pickled to the on-disk cache; a later call reads the '
                        'truncated file',
                  strengthened=None),
    # ---- eighth round ----
    'C01-h': dict(breaks='C01', file='adsg_core/optimization/hierarchy/base.py (HierarchyAnalyzerBase.get_graph mask helper)',
                  change='a refactored helper with an optional mask argument; get_graph forgets to pass the mask of '
                         'infeasible connection-existence combinations',
                  needs='complete encoder, conditional connectors with a degree mismatch in some but not all selection '
                        'combinations: "Infeasible graph specified!" for a vector pointing there',
                  strengthened=None),
    'C03-h': dict(breaks='C03', file='adsg_core/optimization/assign_enc/lazy_encoding.py (LazyImputer.impute cache key)',
                  change='the imputation cache is keyed on (vector, source / target existence masks) instead of the whole '
                         'existence pattern, so patterns that differ only in a degree override share entries',
                  needs='a grouping connector that always exists with conditionally existing members (same connectors, '
                        'other aggregated degree per scenario), a lazy non-pattern encoder, and a sub-vector that needs '
                        'imputation decoded under two scenarios on one processor',
                  strengthened='generator class "group conditional" in the decode family (first member permanent, the '
                               'others below the options of a selection choice)'),
    'C04-h': dict(breaks='C04', file='adsg_core/optimization/hierarchy/complete.py (_find_correct_opt_idx distance)',
                  change='forced choices are only left out of the nearest-combination distance when the caller did not '
                         'supply them (it always does)',
                  needs='a merged scenario with a forced choice at a non-zero index and an inactive non-forced choice in '
                        'the same combination (shared option node plus feedback incompatibility)',
                  strengthened=None),
    'C05-h': dict(breaks='C05', file='adsg_core/optimization/hierarchy/fast.py (FastHierarchyAnalyzer.get_graph)',
                  change='the imputation-cache lookup runs before the "already known infeasible" test',
                  needs='fast encoder, two neighbouring infeasible combinations with different nearest feasible '
                        'neighbours, decoded in a particular order on one processor',
                  strengthened=None),
    'C07-h': dict(breaks='C07 (at assignment-manager level: C10)', file='adsg_core/optimization/assign_enc/lazy/imputation/first.py (LazyFirstImputer memo key)',
                  change='the memo of the first valid vector no longer includes the existence pattern',
                  needs='LazyFirstImputer (registered, never the selector default), two existence patterns with '
                        'different first valid vectors, imputation under one and then the other on one manager',
                  strengthened='forced-encoder mode of C07/C03 now also rotates the registered imputers (half of the '
                               'forced cases): C07 catches it in the thorough tier (2 cases, seed 0), not in the quick '
                               'tier; C10 (every imputer at manager level) catches it in the quick tier'),
    'C09-h': dict(breaks='C09 (counting)', file='adsg_core/optimization/assign_enc/matrix.py (_count_matrices_special)',
                  change='the single-source shortcut fires for any number of connections (>= 1 instead of == 1)',
                  needs='exactly one source (or target) taking two or more connections, counted from a cold cache',
                  strengthened=None),
    'C11-h': dict(breaks='C11', file='adsg_core/graph/adsg_nodes.py (ConnectionChoiceNode.get_conn_node_derivations)',
                  change='dict.fromkeys(nodes, []): all connectors share one member list',
                  needs='a connection choice with two or more grouping connectors', strengthened=None),
    'C12-h': dict(breaks='C12', file='adsg_core/optimization/assign_enc/selector.py (EncoderSelector._get_matrix_gen)',
                  change='the matrix generator is memoised on the selector; initialize_numba swaps the settings for a '
                         'dummy problem and the dummy generator survives the restore',
                  needs='the first selection of a process, a cold selection cache, and settings with 0 or 1 connection '
                        'sets of a shape a pattern encoder accepts',
                  strengthened='the first-selection probe of C12 rotates over three settings (choose 2 of 5, one '
                               'connection set, no connection set) and checks the returned coding; KF-PATTERN-ENC no '
                               'longer matches "variables declared for at most one connection set"'),
    'C15-h': dict(breaks='C15', file='adsg_core/func_cache.py (cached_function key)',
                  change='the persistent cache key contains the keyword names but not their values',
                  needs='a fixed variable and the with_fixed=True and with_fixed=False variant of one cached query in '
                        'the same fix epoch, passed by keyword',
                  strengthened='C15 "both views" law: while fixed, with_fixed=False count / declared size / enumeration '
                               'equal the original problem, asked before or after the restricted ones (alternating); '
                               'this also surfaced FX-40'),
    'C16-h': dict(breaks='C16', file='adsg_core/optimization/graph_processor.py (_get_all_des_var_values)',
                  change='fixed values are inserted into the vector in the order they were fixed',
                  needs='two variables fixed in descending position order',
                  strengthened='C16 fixes one or two selection variables in random order before the first decode; C15 '
                               '(two fixes in both orders) caught it from the start'),
    'C17-h': dict(breaks='C17', file='adsg_core/graph/adsg.py (DSG.metric_nodes)',
                  change='metric nodes are collected in a dict keyed by name',
                  needs='two metric nodes with the same name (told apart by idx) present in one architecture',
                  strengthened='C17 gives a third of the cases same-named metrics with idx (builder passes label/idx)'),
    'C20-h': dict(breaks='C20', file='adsg_core/graph/adsg.py (DSG.get_for_apply_selection_choice)',
                  change='applying a choice that is not currently active is silently skipped',
                  needs='a nested supplementary choice whose mapping is registered before its parent\'s',
                  strengthened=None),
    # ---- ninth round ----
    'C02-i': dict(breaks='C02', file='adsg_core/graph/incompatibility.py (get_mod_nodes_remove_incompatibilities)',
                  change='the orphan test for the infeasibility marker counts any in-edge, also the marker edge itself',
                  needs='an infeasible partial instance (necessary conflict, name order A < T) and ANOTHER choice taken '
                        'afterwards: the marker is removed and the instance reported feasible and final',
                  strengthened='C02 now also descends from infeasible partial instances (as C06 did): a feasible '
                               'descendant below a partial assignment no admissible architecture extends is a violation'),
    'C06-i': dict(breaks='C06 (encoder level: C04)', file='adsg_core/optimization/hierarchy/complete.py (_eliminate_feedback_incompatibility)',
                  change='the symmetry guard only checks that removals in one direction are mirrored',
                  needs='two mutually coupled choices with an extra one-directional removal (an option incompatible with '
                        'a node every option of a choice NESTED below an option of the other choice derives), choice '
                        'order; complete encoder only -- the graph-level API is unaffected',
                  strengthened='nested variant of the necessary-conflict class; C04 catches it. C06\'s own check works on '
                               'the graph-level API (all choice orders), where this change is not observable'),
    'C08-i': dict(breaks='C08', file='adsg_core/graph/adsg_nodes.py (ConnectorDegreeGroupingNode.update_deg)',
                  change='early return when the members\' degree specs equal those of the previous update; the '
                         'repeated_allowed flag is not part of the key and is not refreshed either',
                  needs='a grouping node with two conditional members of equal degrees but different repeatability, '
                        'sibling graphs, and a counterpart that allows parallel connections',
                  strengthened='generator option p_grp_twin (C08 conn_grp profile): twin members'),
    'C10-i': dict(breaks='C10', file='adsg_core/optimization/assign_enc/encoding.py (EagerEncoder.correct_vector_bounds)',
                  change='only -1 is clamped to 0, other negative values pass',
                  needs='a vector entry of -2 or lower given to a lazy / enumerating / pattern encoder',
                  strengthened='C10 hostile vectors now include -2 / -3 entries (before: -1, n+3, over-long)'),
    'C13-i': dict(breaks='C13', file='adsg_core/graph/choice_constraints.py (get_constraint_pre_removed_options)',
                  change='UNORDERED_NOREPL pre-removal is applied when ANY (not all) constrained choice is permanent',
                  needs='a mixed placement: one constrained choice permanent, the others conditional',
                  strengthened=None),
    'C14-i': dict(breaks='C14', file='adsg_core/optimization/hierarchy/fast.py (FastHierarchyAnalyzer.get_graph cache key)',
                  change='the intermediate-graph cache is keyed on the prefix of taken options up to the current choice',
                  needs='a choice with a lower vector index that becomes active after one with a higher index, two '
                        'vectors differing only in the later one, decoded on one analyzer',
                  strengthened=None),
    'C18-i': dict(breaks='C18 (decode level: C03)', file='adsg_core/optimization/graph_processor.py (get_graph graph cache key)',
                  change='prev_values holds the selection values and only the immediately preceding connection choice '
                         '(same mechanism as C03-a, found independently)',
                  needs='three connection choices active together, a processor that has decoded, pickled and restored',
                  strengthened='C18 phase 2 decodes on the restored processor and on fresh processors built from the '
                               'description in the loading process; class "three simple connection choices" on fixed '
                               'case indices (the generic conn3 class is mostly infeasible as a whole); C03 caught it '
                               'from the start'),
    'C19-i': dict(breaks='C19', file='adsg_core/optimization/assign_enc/lazy/imputation/first.py (LazyFirstImputer._impute)',
                  change='the "nothing valid found" sentinel is written to the memo before the search loop',
                  needs='a first-valid search longer than the time limit on a manager that outlives the call; later '
                        'imputations return the sentinel',
                  strengthened='C19 library class "imputer": a 7x3 lazy manager per registered imputer, the same request '
                               'under a limit of a fifth of its undisturbed duration and then without a limit'),
    # ---- tenth round (four properties) ----
    'C03-j': dict(breaks='C03', file='adsg_core/optimization/hierarchy/fast.py (FastHierarchyAnalyzer.get_graph, "Make choice")',
                  change='the option is picked from the options still available in the partially resolved graph, by the '
                         'index that refers to the full option list',
                  needs='fast encoder, an option-removing constraint (PERMUTATION / UNORDERED / UNORDERED_NOREPL) and a '
                        'later index 0 < i < number of remaining options',
                  strengthened=None),
    'C12-j': dict(breaks='C12 (manager level: C10)', file='adsg_core/optimization/assign_enc/lazy_encoding.py (LazyImputer.impute cache key)',
                  change='same edit as C03-h, found independently: the imputation memo is keyed on existence masks only',
                  needs='scenarios with the same connectors existing and different degree overrides, a lazy encoder '
                        'selected, the same vector decoded under both scenarios on one manager',
                  strengthened='C12 override-only family: 12 settings whose two scenarios differ only in an override, '
                               'selected with the candidate faults that leave only lazy encoders; C10 caught it from '
                               'the start. Running it also exposed a load-dependent verdict of C12 (variables for a '
                               'single connection set under a 2 ms limit), now counted instead of judged (section 7)'),
    'C15-j': dict(breaks='C15', file='adsg_core/optimization/graph_processor.py (_existence_mask)',
                  change='the fixed-value mask is ANDed into the memoised infeasibility mask in place',
                  needs='complete encoder, a selection variable fixed, a decode or enumeration while fixed, then free',
                  strengthened=None),
    'C17-j': dict(breaks='C17', file='adsg_core/optimization/graph_processor.py (_can_be_objective)',
                  change='a declared CONSTRAINT type vetoes objective eligibility also when the metric has no reference',
                  needs='a permanent metric with a direction, no reference and type_=CONSTRAINT: silently dropped',
                  strengthened=None),
    'C01-k': dict(breaks='C01', file='adsg_core/optimization/assign_enc/matrix.py (NodeExistence.get_effective_settings)',
                  change='excluded (src, tgt) pairs are re-indexed into the reduced settings on the source side only; '
                         'the target index stays in the original index space',
                  needs='a connection choice with an excluded pair and a CONDITIONAL target connector placed before '
                        'the excluded target; in the architectures where that target is absent the exclusion lands '
                        'on the next target: a "feasible" instance with a connection along the excluded edge',
                  strengthened=None),
    'C04-k': dict(breaks='C04 (with fixed variables)', file='adsg_core/optimization/graph_processor.py (get_additional_dv_stats)',
                  change='"is this design-variable node fixed" is tested with the position among the design-variable '
                         'nodes instead of the index in the full design vector',
                  needs='a discrete design-variable node behind choice variables in the vector, some variable fixed, '
                        'and a count asked with with_fixed=True: n_valid != number of enumerated rows',
                  strengthened=None),
    'C05-k': dict(breaks='C05', file='adsg_core/optimization/hierarchy/base.py (HierarchyAnalyzerBase.get_graph)',
                  change='the per-call mask (which carries the fixed values) is ANDed into the analyzer\'s own '
                         'feasibility mask in place (the regression of FX-02, found independently)',
                  needs='complete encoder; fix a selection variable, decode with create=True while fixed, free (or '
                        're-fix to another value), decode a vector with another option: pinned to the old value',
                  strengthened=None),
    'C16-k': dict(breaks='C16', file='adsg_core/graph/adsg.py (DSG.des_var_nodes)',
                  change='"one variable per LINKED set" remembers only the last-seen set instead of all seen sets',
                  needs='two LINKED design-variable sets whose members interleave in design-variable order '
                        '(X1~X3, X2~X4): every member becomes its own variable, followers overwrite the value of '
                        'the first member, the corrected vector no longer describes the stored values',
                  strengthened='generator option p_dv_link2 (several LINKED pairs formed after a shuffle, so members '
                               'interleave) and C16 input class "linked2" (4-5 design-variable nodes, 8 % of the '
                               'cases); before, one LINKED group was always a prefix of the node list, i.e. adjacent'),
}


def main():
    for sid, m in sorted(META.items()):
        d = os.path.join(ROOT, 'seeded', sid)
        if not os.path.isdir(d):
            continue
        out = dict(id=sid, property_broken=m['breaks'], file=m['file'], change=m['change'],
                   needs_to_manifest=m['needs'])
        try:
            out['confirmed'] = json.load(open(os.path.join(d, 'confirm.json')))
        except Exception:  # noqa
            out['confirmed'] = None
        out['what_was_run'] = [
            'tools/confirm_seeded.sh <scratch worktree> %s: demo.py with the change (expected exit 1), without it '
            '(expected exit 0), and the repository test suite with the change (expected to pass)' % sid,
            'tools/try_seeded.sh %s <check> quick 0: the check against a fresh scratch worktree of /repo HEAD with '
            'patch.diff applied (exit 1 = caught)' % sid]
        try:
            out['checks'] = json.load(open(os.path.join(d, 'caught.json')))
        except Exception:  # noqa
            out['checks'] = None
        try:   # results of runs outside the quick matrix (e.g. thorough tier), recorded by hand
            extra = json.load(open(os.path.join(d, 'caught_extra.json')))
            out['checks'] = dict(out['checks'] or {}, **extra)
        except Exception:  # noqa
            pass
        out['check_strengthened_because_of_it'] = m['strengthened']
        with open(os.path.join(d, 'meta.json'), 'w') as fp:
            json.dump(out, fp, indent=1)
        print(sid, out['checks'])


if __name__ == '__main__' and '--table' not in __import__('sys').argv:
    main()


def table():
    """markdown table for DESIGN.md section 9 (python3 tools/write_meta.py --table)"""
    rows = ['| change | breaks | where | needs | caught by | check strengthened because of it |', '|---|---|---|---|---|---|']
    for sid in sorted(META):
        p = os.path.join(ROOT, 'seeded', sid, 'meta.json')
        if not os.path.exists(p):
            continue
        m = json.load(open(p))
        ch = m.get('checks') or {}
        if 'note' in ch:
            caught = 'n/a (neutralised)'
        else:
            caught = ', '.join(k for k, v in ch.items() if v == 'caught') or '—'
            missed = [k for k, v in ch.items() if v != 'caught']
            if missed:
                caught += ' (missed by ' + ', '.join(missed) + ')'
        needs = m['needs_to_manifest']
        needs = needs if len(needs) < 170 else needs[:167] + '…'
        st = m.get('check_strengthened_because_of_it') or '—'
        st = st if len(st) < 150 else st[:147] + '…'
        rows.append('| %s | %s | `%s` | %s | %s | %s |' % (sid, m['property_broken'], m['file'].split(' ')[0].replace('adsg_core/', ''),
                                                        needs, caught, st))
    return '\n'.join(rows)


if __name__ == '__main__' and '--table' in __import__('sys').argv:
    print(table())
