#!/bin/bash
# tools/try_seeded.sh <seeded-id> <CHECK-ID> [tier] [seed]: run one check against a scratch worktree of /repo with seeded/<id>/patch.diff applied
cd "$(dirname "$0")/.."
sid=$1; id=$2; tier=${3:-quick}; seed=${4:-0}
dir=/tmp/ev/$sid.$$
mkdir -p /tmp/ev
git -C /repo worktree add -q --detach $dir HEAD || exit 3
git -C $dir apply /verif/seeded/$sid/patch.diff || { echo "patch does not apply"; git -C /repo worktree remove --force $dir; exit 3; }
out=$(VERIF_SEED=$seed ./check $id --tier $tier --repo $dir 2>&1); rc=$?
echo "$id vs seeded/$sid tier=$tier seed=$seed rc=$rc :: $(echo "$out" | grep -E "^$id $tier" | head -1)"
echo "$out" | grep -E "^(VIOLATION|INCONCLUSIVE)" | head -3
echo "$out" | grep -E "^  mechanism" | head -2 | cut -c1-360
git -C /repo worktree remove --force $dir
exit $rc
