#!/bin/bash
# tools/retest_seeded.sh <seeded-id>: run the repository test suite once more with seeded/<id>/patch.diff applied (fresh
# scratch worktree) and record the outcome in confirm.json -- the wall-clock test test_time_limiter fails sporadically
# on a loaded machine
cd "$(dirname "$0")/.."
sid=$1; dir=/tmp/ev/retest.$sid.$$
mkdir -p /tmp/ev
git -C /repo worktree add -q --detach $dir HEAD || exit 3
git -C $dir apply /verif/seeded/$sid/patch.diff || { git -C /repo worktree remove --force $dir; exit 3; }
out=$(cd $dir && PYTHONPATH=$dir XDG_CACHE_HOME=$dir/.cache timeout 1200 /venv/bin/python -m pytest -q -p no:cacheprovider --timeout=900 adsg_core/tests 2>&1)
res=$(echo "$out" | grep -E "passed|failed" | tail -1); failed=$(echo "$out" | grep -E "^FAILED" | cut -c1-160 | tr '\n' ';')
git -C /repo worktree remove --force $dir
python3 - "$sid" "$res" "$failed" <<'E'
import json,sys
sid,res,failed=sys.argv[1:4]
p='/verif/seeded/%s/confirm.json'%sid; d=json.load(open(p))
d.setdefault('earlier_test_runs',[]).append(d['tests_with_change'])
d['tests_with_change']=res.strip('= ')
if failed: d['failed_tests']=failed
elif 'failed' in str(d['earlier_test_runs']):
    d['note']='an earlier confirmation run had one sporadic failure of the wall-clock test test_time_limiter (machine was loaded); this re-run passes'
json.dump(d,open(p,'w'),indent=1); print(sid,d['tests_with_change'],failed)
E
