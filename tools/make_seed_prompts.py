#!/usr/bin/env python3
"""tools/make_seed_prompts.py <round-dir> <Cnn> [<Cnn> ...]: write <round-dir>/<Cnn>.prompt.txt for a fresh sub-agent
(the property text only, nothing from /verif) and create its scratch worktree <round-dir>/<Cnn> of /repo HEAD.
Code touched by earlier seeded changes of the same property (seeded/<Cnn>-*/meta.json) is listed as off limits."""
import os
import sys
import glob
import json
import subprocess

ROOT = os.path.dirname(os.path.dirname(os.path.abspath(__file__)))
TMPL = '''You are helping to stress-test a verification effort for the Python library jbussemaker/adsg-core (a "Design Space Graph" library: it models architecture choices as a directed graph, enumerates valid architectures and encodes selection/connection choices as optimization design vectors).

You have your own scratch git worktree of the library at __WT__ (branch-less checkout of the current code). Work ONLY inside __WT__. Do NOT read or write anything under /verif or /repo, and do not look for existing verification machinery anywhere: your work must be independent.

THE PROPERTY (a behaviour users rely on):

__PROP__

YOUR TASK: make ONE small, realistic change to the library source in __WT__ (the kind of slip a maintainer could plausibly introduce: a refactoring mistake, an off-by-one, a wrong condition, a missing copy, a cache key that omits something, a wrong default, two sites that each look fine alone) that BREAKS this property, while
  (a) the code still imports and the repository's own test suite still passes completely, and
  (b) the breakage needs something specific to manifest -- an unusual input shape, a particular multi-step sequence of operations, a particular history / interleaving / cache state, or two cooperating sites -- i.e. NOT something ordinary straight-line use of the documented examples would expose at once.
Do not just delete functionality or special-case an input; do not touch tests. Keep the diff small (ideally under ~15 changed lines).

How to run things (the library is pure Python; an editable install points elsewhere, so always set PYTHONPATH to your worktree):
  cd __WT__ && PYTHONPATH=__WT__ XDG_CACHE_HOME=__WT__/.cache /venv/bin/python -m pytest -q -p no:cacheprovider --timeout=900 adsg_core/tests        (about 30 s; expect "295 passed, 8 skipped")
  cd __WT__ && PYTHONPATH=__WT__ XDG_CACHE_HOME=__WT__/.cache /venv/bin/python demo.py
Useful docs: __WT__/docs/theory.md, __WT__/docs/guide.ipynb (JSON; code cells show the API), __WT__/docs/api_dsg.md, __WT__/docs/api_opt.md, and the tests under __WT__/adsg_core/tests.

DELIVERABLES (all inside __WT__):
  1. The source change left UNCOMMITTED in the worktree (so that `git -C __WT__ diff` is exactly the patch; do not commit, do not add unrelated changes).
  2. A demonstration script __WT__/demo.py (standalone, uses only the library's public API, deterministic, < 60 s) that exits with status 0 on the ORIGINAL code and with a non-zero status (assertion failure with a clear message) on the CHANGED code. Verify both: run it with your change; then save the patch (`git diff > __WT__.patch`), revert it (`git apply -R __WT__.patch`), run the demo again, and re-apply it (`git apply __WT__.patch`). NEVER use `git stash` (the stash is shared with other worktrees of this repository).
  3. Confirm the full test suite passes WITH your change (paste the final pytest summary line).
  4. A final reply (you may not be able to write REPORT.md; the reply is what counts) with: what you changed and where; why it breaks the property; exactly what is needed for the breakage to manifest (input shape / operation sequence / history); the commands you ran and their outcomes (tests with change, demo with change, demo without change).

Earlier exercises already used changes in: __AVOID__. Do NOT touch that code; find a DIFFERENT mechanism in a different function (ideally a different file) by which the property can break.

If your first idea fails a test or is exposed by the existing tests, try another idea. Finish by replying with that report.
'''


def main():
    rdir = sys.argv[1]
    os.makedirs(rdir, exist_ok=True)
    props = {}
    for line in open(os.path.join(ROOT, 'properties.jsonl')):
        d = json.loads(line)
        props[d['id']] = '%s\n\n%s\n\nIt must hold for: %s' % (d['title'], d['statement'], d['quantifier']['text'])
    for pid in sys.argv[2:]:
        avoid = []
        for m in sorted(glob.glob(os.path.join(ROOT, 'seeded', pid + '-*', 'meta.json'))):
            avoid.append(json.load(open(m))['file'])
        wt = os.path.join(rdir, pid)
        subprocess.check_call(['git', '-C', '/repo', 'worktree', 'add', '-q', '--detach', wt, 'HEAD'])
        s = TMPL.replace('__WT__', wt).replace('__PROP__', props[pid]).replace('__AVOID__', '; '.join(avoid) or 'nothing yet')
        open(os.path.join(rdir, pid + '.prompt.txt'), 'w').write(s)
        print(pid, len(s))


if __name__ == '__main__':
    main()
