#!/usr/bin/env python3
"""triage helper: tools/brk.py C11 [n_examples] -- breakdown of evidence/<ID>.debug.json (written with VERIF_DEBUG=1)"""
import sys, json, collections
EX = {'opt_is_permanent','opt_derives_origin','incompat_self','unreachable_part','choice_loop','shared_option','opt_derived_by_origin','dup_choice_id','conn_grp','conn_excl','dv_linked'}
pid = sys.argv[1]
nex = int(sys.argv[2]) if len(sys.argv) > 2 else 1
vs = json.load(open('/verif/evidence/%s.debug.json' % pid))
c = collections.Counter(); ex = collections.defaultdict(list)
for v in vs:
    k = (v['symptom'], json.dumps(v['where'], sort_keys=True), tuple(sorted(set(v['flags']) & EX)))
    c[k] += 1
    if len(ex[k]) < nex: ex[k].append(v)
def sh(s):
    if not isinstance(s, dict) or 'nodes' not in s: return json.dumps(s)[:1500]
    return json.dumps({'nodes':[n for n in s['nodes'] if n['kind']!='named'],'edges':s['edges'],'sel':[[c['key'],c['id'],c['origin'],c['options']] for c in s['sel']],'incompat':s['incompat'],'con':s['constraints'],'conn':s['conn'],'start':s['start']})
for k, n in sorted(c.items(), key=lambda kv: -kv[1]):
    print('#### %d %s' % (n, k))
    if nex:
        for v in ex[k]:
            print('   SPEC', sh(v['spec'])[:1800]); print('   DETAIL', json.dumps(v['detail'])[:1200])
